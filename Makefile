# Makefile — builds the verification engines from /repo's *current working tree*.
# Every object that includes quill depends on all of /repo/include, so an edited header rebuilds.
REPO ?= /repo
B := build
CXX := g++
QUILL_HDRS := $(shell find $(REPO)/include -type f)
COMMON := -std=c++17 -g -pthread -I sim -I simsys -I $(REPO)/include -Wno-unused-result
PLAIN := $(COMMON) -O1
# nonnull-attribute is off: quill's documented handling of a null C string ends in memcpy(dst, nullptr, 0), which has no
# observable effect and is no property's concern (DESIGN.md, Corrections 12)
ASAN := $(COMMON) -O1 -fsanitize=address,undefined -fno-sanitize=nonnull-attribute -fno-omit-frame-pointer -DSIM_ASAN
FOS := 0 1 2 3 4 5 6 7

SIMSYS_LIGHT := simsys/driver.cpp simsys/profiles.cpp $(wildcard simsys/p_*.cpp)
SIMSYS_HDRS := $(wildcard simsys/*.h) $(wildcard sim/*.h)

all: $(B)/simsys_plain $(B)/simcomp $(B)/simq

$(B)/simq: simq/simq.cpp simq/simq_cases.h simq/atomic_wmm.h simq/quill_queues.h sim/prelude.h sim/batch_driver.h $(QUILL_HDRS)
	@mkdir -p $(B)
	$(CXX) -std=c++17 -O1 -g -pthread -I sim -I $(REPO)/include -Wno-unused-result $< -o $@

$(B)/simcomp: simcomp/simcomp.cpp simcomp/simcomp_driver.h sim/batch_driver.h $(QUILL_HDRS)
	@mkdir -p $(B)
	$(CXX) -std=c++17 -O1 -g -pthread -I $(REPO)/include -Wno-unused-result $< -o $@

$(B)/plain/vm_fo%.o: simsys/vm_fo.cpp $(SIMSYS_HDRS) $(QUILL_HDRS)
	@mkdir -p $(B)/plain
	$(CXX) $(PLAIN) -DFO_INDEX=$* -c $< -o $@

$(B)/asan/vm_fo%.o: simsys/vm_fo.cpp $(SIMSYS_HDRS) $(QUILL_HDRS)
	@mkdir -p $(B)/asan
	$(CXX) $(ASAN) -DFO_INDEX=$* -c $< -o $@

$(B)/plain/%.o: simsys/%.cpp $(SIMSYS_HDRS)
	@mkdir -p $(B)/plain
	$(CXX) $(PLAIN) -c $< -o $@

$(B)/asan/%.o: simsys/%.cpp $(SIMSYS_HDRS)
	@mkdir -p $(B)/asan
	$(CXX) $(ASAN) -c $< -o $@

$(B)/plain/sim.o: sim/sim.cpp sim/sim.h
	@mkdir -p $(B)/plain
	$(CXX) $(PLAIN) -DSIM_COUNT_ALLOCS -c $< -o $@

$(B)/asan/sim.o: sim/sim.cpp sim/sim.h
	@mkdir -p $(B)/asan
	$(CXX) $(ASAN) -c $< -o $@

LIGHT_OBJS := $(patsubst simsys/%.cpp,%.o,$(SIMSYS_LIGHT))

$(B)/simsys_plain: $(foreach k,$(FOS),$(B)/plain/vm_fo$(k).o) $(addprefix $(B)/plain/,$(LIGHT_OBJS)) $(B)/plain/sim.o
	$(CXX) $(PLAIN) $^ -o $@ -ldl

$(B)/simsys_asan: $(foreach k,$(FOS),$(B)/asan/vm_fo$(k).o) $(addprefix $(B)/asan/,$(LIGHT_OBJS)) $(B)/asan/sim.o
	$(CXX) $(ASAN) $^ -o $@ -ldl

clean:
	rm -rf $(B)

.PHONY: all clean
.SECONDARY:
