// atomic_sc.h — std::sim_atomic<T>: the full std::atomic<T> interface; every operation is a yield
// point of the scheduler and acts on the single current value (sequentially consistent mode,
// DESIGN.md 2.3). Used by SIM-SYS. Construction and destruction are not yield points.
#pragma once
#include "sim.h"
#include <atomic>
#include <cstring>
#include <type_traits>

namespace std
{
template <class T>
struct sim_atomic
{
  static_assert(std::is_trivially_copyable<T>::value, "atomic requires trivially copyable");
  using value_type = T;
  static constexpr bool is_always_lock_free = true;

  sim_atomic() noexcept = default;
  constexpr sim_atomic(T d) noexcept : v_(d) {}
  sim_atomic(sim_atomic const&) = delete;
  sim_atomic& operator=(sim_atomic const&) = delete;

  bool is_lock_free() const noexcept { return true; }

  static uint64_t enc(T const& d) noexcept
  {
    if constexpr (std::is_pointer<T>::value)
    {
      return d != nullptr ? 1u : 0u; // addresses never enter the event hash
    }
    else
    {
      uint64_t r = 0;
      std::memcpy(&r, &d, sizeof(T) < 8 ? sizeof(T) : 8);
      return r;
    }
  }

  void store(T d, memory_order = memory_order_seq_cst) noexcept
  {
    ::sim::yield_point(::sim::K_STORE, enc(d));
    __atomic_store(&v_, &d, __ATOMIC_SEQ_CST);
  }
  T load(memory_order = memory_order_seq_cst) const noexcept
  {
    ::sim::yield_point(::sim::K_LOAD, 0);
    T r;
    __atomic_load(const_cast<T*>(&v_), &r, __ATOMIC_SEQ_CST);
    if (::sim::active())
    {
      ::sim::hash_mix(enc(r));
    }
    return r;
  }
  operator T() const noexcept { return load(); }
  T operator=(T d) noexcept
  {
    store(d);
    return d;
  }
  T exchange(T d, memory_order = memory_order_seq_cst) noexcept
  {
    ::sim::yield_point(::sim::K_RMW, enc(d));
    T r;
    __atomic_exchange(&v_, &d, &r, __ATOMIC_SEQ_CST);
    if (::sim::active())
    {
      ::sim::hash_mix(enc(r));
    }
    return r;
  }
  bool compare_exchange_strong(T& expected, T desired, memory_order = memory_order_seq_cst,
                               memory_order = memory_order_seq_cst) noexcept
  {
    ::sim::yield_point(::sim::K_RMW, enc(desired));
    bool ok = __atomic_compare_exchange(&v_, &expected, &desired, false, __ATOMIC_SEQ_CST, __ATOMIC_SEQ_CST);
    if (::sim::active())
    {
      ::sim::hash_mix(ok ? 1 : 0);
    }
    return ok;
  }
  bool compare_exchange_weak(T& expected, T desired, memory_order a = memory_order_seq_cst,
                             memory_order b = memory_order_seq_cst) noexcept
  {
    return compare_exchange_strong(expected, desired, a, b);
  }

  template <class U = T>
  typename enable_if<is_integral<U>::value || is_pointer<U>::value, T>::type fetch_add(
    typename conditional<is_pointer<U>::value, ptrdiff_t, U>::type d, memory_order = memory_order_seq_cst) noexcept
  {
    ::sim::yield_point(::sim::K_RMW, 0);
    T old = v_;
    v_ = old + d;
    if (::sim::active())
    {
      ::sim::hash_mix(enc(old));
    }
    return old;
  }
  template <class U = T>
  typename enable_if<is_integral<U>::value || is_pointer<U>::value, T>::type fetch_sub(
    typename conditional<is_pointer<U>::value, ptrdiff_t, U>::type d, memory_order = memory_order_seq_cst) noexcept
  {
    ::sim::yield_point(::sim::K_RMW, 0);
    T old = v_;
    v_ = old - d;
    if (::sim::active())
    {
      ::sim::hash_mix(enc(old));
    }
    return old;
  }
  template <class U = T>
  typename enable_if<is_integral<U>::value, T>::type fetch_and(U d, memory_order = memory_order_seq_cst) noexcept
  {
    ::sim::yield_point(::sim::K_RMW, 0);
    T old = v_;
    v_ = old & d;
    return old;
  }
  template <class U = T>
  typename enable_if<is_integral<U>::value, T>::type fetch_or(U d, memory_order = memory_order_seq_cst) noexcept
  {
    ::sim::yield_point(::sim::K_RMW, 0);
    T old = v_;
    v_ = old | d;
    return old;
  }
  template <class U = T>
  typename enable_if<is_integral<U>::value, T>::type fetch_xor(U d, memory_order = memory_order_seq_cst) noexcept
  {
    ::sim::yield_point(::sim::K_RMW, 0);
    T old = v_;
    v_ = old ^ d;
    return old;
  }
  template <class U = T>
  typename enable_if<is_integral<U>::value || is_pointer<U>::value, T>::type operator++() noexcept
  {
    return fetch_add(1) + 1;
  }
  template <class U = T>
  typename enable_if<is_integral<U>::value || is_pointer<U>::value, T>::type operator++(int) noexcept
  {
    return fetch_add(1);
  }
  template <class U = T>
  typename enable_if<is_integral<U>::value || is_pointer<U>::value, T>::type operator--() noexcept
  {
    return fetch_sub(1) - 1;
  }
  template <class U = T>
  typename enable_if<is_integral<U>::value || is_pointer<U>::value, T>::type operator--(int) noexcept
  {
    return fetch_sub(1);
  }
  template <class U = T>
  typename enable_if<is_integral<U>::value, T>::type operator+=(U d) noexcept
  {
    return fetch_add(d) + d;
  }
  template <class U = T>
  typename enable_if<is_integral<U>::value, T>::type operator-=(U d) noexcept
  {
    return fetch_sub(d) - d;
  }
  template <class U = T>
  typename enable_if<is_integral<U>::value, T>::type operator&=(U d) noexcept
  {
    return fetch_and(d) & d;
  }
  template <class U = T>
  typename enable_if<is_integral<U>::value, T>::type operator|=(U d) noexcept
  {
    return fetch_or(d) | d;
  }
  template <class U = T>
  typename enable_if<is_integral<U>::value, T>::type operator^=(U d) noexcept
  {
    return fetch_xor(d) ^ d;
  }

  T v_;
};

inline void sim_atomic_thread_fence(memory_order) noexcept { ::sim::yield_point(::sim::K_FENCE, 0); }
inline void sim_atomic_signal_fence(memory_order) noexcept {}
} // namespace std
