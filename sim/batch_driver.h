// batch_driver.h — batch driver for engines whose runs have no process-wide state (SIM-Q, SIM-COMP):
// many runs per worker process, worker death attributed to the current seed, ddmin over the case's op
// list, replay gate, known-findings matching, evidence file. Header-only, included once per engine.
//
// Requirements:  Case { std::string prop; uint64_t seed; std::vector<Op> ops; std::string to_text() const;
//                       static bool from_text(std::string const&, Case&); }
//                Verdict { int kind (0 ok,1 violation,2 inconclusive); std::string tag, detail;
//                          std::map<string,string> fields; bool nontrivial; std::map<string,uint64_t> probes; uint64_t hash; }
#pragma once
#include <algorithm>
#include <chrono>
#include <cstdio>
#include <cstdlib>
#include <cstring>
#include <fstream>
#include <functional>
#include <map>
#include <poll.h>
#include <sched.h>
#include <sstream>
#include <string>
#include <sys/wait.h>
#include <unistd.h>
#include <unordered_set>
#include <vector>

namespace bd
{
struct PropInfo
{
  std::string rule;
  std::vector<std::string> real_components, stub_components, assumptions;
  int64_t quick_runs = 5000, thorough_runs = 500000;
  int thorough_seconds = 300;
};

template <class Case, class Verdict>
struct Engine
{
  std::string name;        // "simq" / "simcomp"
  std::string description; // evidence "engine" text
  std::function<Case(std::string const& prop, uint64_t seed, int tier)> gen;
  std::function<Verdict(Case const&, std::string const& scratch)> run;
  std::function<std::string(Case const&)> sample; // short human-readable form of a case
  std::map<std::string, PropInfo> props;
  std::function<void(std::map<std::string, uint64_t>&)> extra_counters; // optional engine-wide counters (per worker)
};

inline std::string esc(std::string const& s)
{
  std::string o;
  for (char c : s)
  {
    if (c == '\n')
    {
      o += "\\n";
    }
    else if (c == '\\')
    {
      o += "\\\\";
    }
    else if (static_cast<unsigned char>(c) < 32)
    {
      char b[8];
      snprintf(b, sizeof(b), "\\x%02x", static_cast<unsigned char>(c));
      o += b;
    }
    else
    {
      o += c;
    }
  }
  return o;
}
inline std::string unesc(std::string const& s)
{
  std::string o;
  for (size_t i = 0; i < s.size(); ++i)
  {
    if (s[i] == '\\' && i + 1 < s.size())
    {
      if (s[i + 1] == 'n')
      {
        o += '\n';
        ++i;
      }
      else if (s[i + 1] == '\\')
      {
        o += '\\';
        ++i;
      }
      else if (s[i + 1] == 'x' && i + 3 < s.size())
      {
        o += static_cast<char>(strtol(s.substr(i + 2, 2).c_str(), nullptr, 16));
        i += 3;
      }
      else
      {
        o += s[i];
      }
    }
    else
    {
      o += s[i];
    }
  }
  return o;
}
inline std::string json_str(std::string const& s)
{
  std::string o = "\"";
  for (char c : s)
  {
    switch (c)
    {
    case '"': o += "\\\""; break;
    case '\\': o += "\\\\"; break;
    case '\n': o += "\\n"; break;
    case '\t': o += "\\t"; break;
    case '\r': o += "\\r"; break;
    default:
      if (static_cast<unsigned char>(c) < 32)
      {
        char b[8];
        snprintf(b, sizeof(b), "\\u%04x", static_cast<unsigned char>(c));
        o += b;
      }
      else
      {
        o += c;
      }
    }
  }
  return o + "\"";
}

template <class Verdict>
std::string ser(Verdict const& v)
{
  std::ostringstream o;
  o << v.kind << " " << (v.tag.empty() ? "-" : v.tag) << " " << v.hash << " " << (v.nontrivial ? 1 : 0) << " |";
  for (auto const& kv : v.probes)
  {
    o << " " << kv.first << "=" << kv.second;
  }
  o << " |";
  for (auto const& kv : v.fields)
  {
    o << " " << kv.first << "=" << esc(kv.second);
  }
  o << " | " << esc(v.detail);
  return o.str();
}
template <class Verdict>
Verdict deser(std::string const& line)
{
  Verdict v;
  std::istringstream ls(line);
  std::string tag;
  int nt;
  ls >> v.kind >> tag >> v.hash >> nt;
  v.tag = tag == "-" ? "" : tag;
  v.nontrivial = nt != 0;
  std::string rest;
  std::getline(ls, rest);
  size_t b1 = rest.find('|'), b2 = rest.find('|', b1 + 1), b3 = rest.find('|', b2 + 1);
  if (b1 == std::string::npos || b2 == std::string::npos || b3 == std::string::npos)
  {
    return v;
  }
  {
    std::istringstream ps(rest.substr(b1 + 1, b2 - b1 - 1));
    std::string kv;
    while (ps >> kv)
    {
      size_t eq = kv.find('=');
      if (eq != std::string::npos)
      {
        v.probes[kv.substr(0, eq)] = strtoull(kv.c_str() + eq + 1, nullptr, 10);
      }
    }
  }
  {
    std::istringstream fs(rest.substr(b2 + 1, b3 - b2 - 1));
    std::string kv;
    while (fs >> kv)
    {
      size_t eq = kv.find('=');
      if (eq != std::string::npos)
      {
        v.fields[kv.substr(0, eq)] = unesc(kv.substr(eq + 1));
      }
    }
  }
  std::string d = rest.substr(b3 + 1);
  if (!d.empty() && d[0] == ' ')
  {
    d.erase(0, 1);
  }
  v.detail = unesc(d);
  return v;
}

// run one case in a forked child (crash-safe); used for minimisation, gate and replay
template <class Case, class Verdict>
Verdict run_forked(Engine<Case, Verdict> const& eng, Case const& c, std::string const& scratch, bool& crashed)
{
  int pfd[2];
  if (pipe(pfd) != 0)
  {
    perror("pipe");
    exit(2);
  }
  fflush(stdout);
  pid_t pid = fork();
  if (pid == 0)
  {
    close(pfd[0]);
    Verdict v = eng.run(c, scratch);
    std::string s = ser(v) + "\n";
    (void)!write(pfd[1], s.data(), s.size());
    _exit(0);
  }
  close(pfd[1]);
  std::string buf;
  char tmp[65536];
  ssize_t n;
  while ((n = read(pfd[0], tmp, sizeof(tmp))) > 0)
  {
    buf.append(tmp, static_cast<size_t>(n));
  }
  close(pfd[0]);
  int st = 0;
  waitpid(pid, &st, 0);
  crashed = false;
  if (buf.empty() || !WIFEXITED(st) || WEXITSTATUS(st) != 0)
  {
    crashed = true;
    Verdict v;
    v.kind = 1;
    v.tag = WIFSIGNALED(st) ? std::string("crash:") + strsignal(WTERMSIG(st)) : "crash:exit";
    std::replace(v.tag.begin(), v.tag.end(), ' ', '_');
    v.detail = "the run ended the worker process";
    return v;
  }
  size_t nl = buf.find('\n');
  return deser<Verdict>(buf.substr(0, nl));
}

struct KnownFinding
{
  std::string property, tag, description;
  std::map<std::string, std::string> fields;
};
inline std::vector<KnownFinding> load_known(std::string const& path)
{
  std::vector<KnownFinding> out;
  std::ifstream f(path);
  std::string line;
  while (std::getline(f, line))
  {
    if (line.rfind("finding:", 0) != 0)
    {
      continue;
    }
    KnownFinding k;
    std::string head = line.substr(8);
    size_t sep = head.find("::");
    if (sep != std::string::npos)
    {
      k.description = head.substr(sep + 2);
      head = head.substr(0, sep);
    }
    while (!k.description.empty() && k.description[0] == ' ')
    {
      k.description.erase(0, 1);
    }
    std::istringstream hs(head);
    std::string tok;
    while (hs >> tok)
    {
      size_t eq = tok.find('=');
      if (eq == std::string::npos)
      {
        continue;
      }
      std::string key = tok.substr(0, eq), val = tok.substr(eq + 1);
      if (key == "property")
      {
        k.property = val;
      }
      else if (key == "tag")
      {
        k.tag = val;
      }
      else
      {
        k.fields[key] = val;
      }
    }
    out.push_back(k);
  }
  return out;
}

// violation class = oracle tag + the fields that characterise the failure: two violations of one property with
// different fields are minimised, matched against known findings and reported separately
template <class Verdict>
std::string sig(Verdict const& v)
{
  std::string s = v.tag;
  for (auto const& kv : v.fields)
  {
    s += "|" + kv.first + "=" + kv.second;
  }
  return s;
}

template <class Case, class Verdict>
int batch_main(int argc, char** argv, Engine<Case, Verdict> const& eng)
{
  std::string prop, evidence, replay, known = "/verif/known_findings.txt", replay_dir = "/verif/replays", dump;
  int tier = 0, workers = 8, time_s = 0;
  int64_t runs = -1;
  uint64_t seed = 1, one = 0;
  bool no_min = false;
  if (char const* s = getenv("VERIF_SEED"))
  {
    seed = strtoull(s, nullptr, 10);
  }
  if (char const* s = getenv("VERIF_TIER"))
  {
    tier = std::string(s) == "thorough";
  }
  for (int i = 1; i < argc; ++i)
  {
    std::string k = argv[i];
    auto val = [&]() -> std::string { return i + 1 < argc ? argv[++i] : ""; };
    if (k == "--property") prop = val();
    else if (k == "--tier") tier = val() == "thorough";
    else if (k == "--seed") seed = strtoull(val().c_str(), nullptr, 10);
    else if (k == "--runs") runs = atoll(val().c_str());
    else if (k == "--workers") workers = atoi(val().c_str());
    else if (k == "--time") time_s = atoi(val().c_str());
    else if (k == "--evidence") evidence = val();
    else if (k == "--replay") replay = val();
    else if (k == "--known") known = val();
    else if (k == "--replay-dir") replay_dir = val();
    else if (k == "--no-min") no_min = true;
    else if (k == "--one") one = strtoull(val().c_str(), nullptr, 10);
    else if (k == "--dump-hashes") dump = val();
    else
    {
      fprintf(stderr, "unknown argument %s\n", k.c_str());
      return 2;
    }
  }
  setvbuf(stdout, nullptr, _IOLBF, 0);
  std::string root = "/dev/shm/quill-verif-" + eng.name + "." + std::to_string(getpid());
  (void)!system(("rm -rf '" + root + "' && mkdir -p '" + root + "'").c_str());
  auto cleanup = [&]() { (void)!system(("rm -rf '" + root + "'").c_str()); };
  static char const* kinds[] = {"OK", "VIOLATION", "INCONCLUSIVE"};

  if (!replay.empty())
  {
    std::ifstream f(replay);
    std::stringstream ss;
    ss << f.rdbuf();
    Case c;
    if (!f || !Case::from_text(ss.str(), c))
    {
      fprintf(stderr, "cannot read replay file %s\n", replay.c_str());
      cleanup();
      return 2;
    }
    bool crashed;
    Verdict v = run_forked(eng, c, root + "/replay", crashed);
    printf("replay %s: verdict=%s class=%s hash=%016lx\n", replay.c_str(), kinds[v.kind % 3], v.tag.c_str(), v.hash);
    for (auto const& kv : v.fields)
    {
      printf("  %s = %s\n", kv.first.c_str(), kv.second.c_str());
    }
    if (!v.detail.empty())
    {
      printf("  detail: %s\n", v.detail.c_str());
    }
    printf("%s", c.to_text().c_str());
    cleanup();
    if (v.kind == 1)
    {
      printf("VIOLATION property=%s replay=%s\n", c.prop.c_str(), replay.c_str());
      return 1;
    }
    return 0;
  }
  auto pit = eng.props.find(prop);
  if (pit == eng.props.end())
  {
    fprintf(stderr, "unknown property '%s' for engine %s\n", prop.c_str(), eng.name.c_str());
    cleanup();
    return 2;
  }
  PropInfo const& info = pit->second;
  uint64_t const ph = std::hash<std::string>{}(prop) & 0xFFFF;
  auto run_seed = [&](int64_t i) -> uint64_t
  {
    uint64_t a = seed ^ (ph * 0x9E3779B97F4A7C15ull) ^ (static_cast<uint64_t>(i) * 0xC2B2AE3D27D4EB4Full);
    a = (a ^ (a >> 30)) * 0xBF58476D1CE4E5B9ull;
    a = (a ^ (a >> 27)) * 0x94D049BB133111EBull;
    return a ^ (a >> 31);
  };
  if (one)
  {
    Case c = eng.gen(prop, one, tier);
    bool crashed;
    Verdict v = run_forked(eng, c, root + "/one", crashed);
    printf("%s", c.to_text().c_str());
    printf("run seed %lu: verdict=%s class=%s\n  detail: %s\n", one, kinds[v.kind % 3], v.tag.c_str(), v.detail.c_str());
    cleanup();
    return 0;
  }
  if (runs < 0)
  {
    runs = tier ? info.thorough_runs : info.quick_runs;
  }
  if (tier && time_s == 0)
  {
    time_s = info.thorough_seconds;
  }
  auto t0 = std::chrono::steady_clock::now();
  auto deadline = t0 + std::chrono::seconds(time_s > 0 ? time_s : 100000000);

  struct W
  {
    pid_t pid = -1;
    int fd = -1;
    int64_t next = 0; // next run index of this stride
    uint64_t current = 0;
    bool running_case = false;
    std::string buf;
    bool done = false;
  };
  std::vector<W> ws(static_cast<size_t>(workers));
  auto spawn = [&](size_t w)
  {
    int pfd[2];
    if (pipe(pfd) != 0)
    {
      perror("pipe");
      exit(2);
    }
    fflush(stdout);
    pid_t pid = fork();
    if (pid == 0)
    {
      for (auto& o : ws)
      {
        if (o.fd >= 0)
        {
          close(o.fd);
        }
      }
      close(pfd[0]);
      long ncpu = sysconf(_SC_NPROCESSORS_ONLN);
      cpu_set_t set;
      CPU_ZERO(&set);
      CPU_SET(static_cast<int>(w % static_cast<size_t>(ncpu > 0 ? ncpu : 1)), &set);
      sched_setaffinity(0, sizeof(set), &set);
      FILE* out = fdopen(pfd[1], "w");
      std::string scratch = root + "/w" + std::to_string(w);
      for (int64_t i = ws[w].next; i < runs; i += workers)
      {
        if (time_s > 0 && std::chrono::steady_clock::now() > deadline)
        {
          break;
        }
        uint64_t rs = run_seed(i);
        fprintf(out, "S %ld %lu\n", i, rs);
        fflush(out);
        Case c = eng.gen(prop, rs, tier);
        Verdict v = eng.run(c, scratch);
        fprintf(out, "R %lu %s\n", rs, ser(v).c_str());
        fflush(out);
      }
      std::map<std::string, uint64_t> extra;
      if (eng.extra_counters)
      {
        eng.extra_counters(extra);
        for (auto const& kv : extra)
        {
          fprintf(out, "X %s %lu\n", kv.first.c_str(), kv.second);
        }
      }
      fprintf(out, "DONE\n");
      fclose(out);
      _exit(0);
    }
    close(pfd[1]);
    ws[w].pid = pid;
    ws[w].fd = pfd[0];
    ws[w].buf.clear();
    ws[w].running_case = false;
  };
  for (size_t w = 0; w < ws.size(); ++w)
  {
    ws[w].next = static_cast<int64_t>(w);
    spawn(w);
  }
  uint64_t evaluations = 0, ok = 0, viol = 0, inconc = 0, nontrivial = 0, crashes = 0;
  std::unordered_set<uint64_t> distinct_nt, distinct_all;
  std::map<std::string, uint64_t> probes, inconc_reasons, extra_total;
  std::map<std::string, std::vector<uint64_t>> viol_seeds;
  FILE* hd = dump.empty() ? nullptr : fopen(dump.c_str(), "w");
  size_t alive = ws.size();
  while (alive > 0)
  {
    std::vector<struct pollfd> pf;
    std::vector<size_t> idx;
    for (size_t w = 0; w < ws.size(); ++w)
    {
      if (ws[w].fd >= 0)
      {
        pf.push_back({ws[w].fd, POLLIN, 0});
        idx.push_back(w);
      }
    }
    if (pf.empty())
    {
      break;
    }
    if (poll(pf.data(), pf.size(), 1000) <= 0)
    {
      continue;
    }
    for (size_t k = 0; k < pf.size(); ++k)
    {
      if (!(pf[k].revents & (POLLIN | POLLHUP)))
      {
        continue;
      }
      W& w = ws[idx[k]];
      char tmp[65536];
      ssize_t n = read(w.fd, tmp, sizeof(tmp));
      if (n > 0)
      {
        w.buf.append(tmp, static_cast<size_t>(n));
      }
      size_t pos;
      while ((pos = w.buf.find('\n')) != std::string::npos)
      {
        std::string line = w.buf.substr(0, pos);
        w.buf.erase(0, pos + 1);
        if (line.rfind("S ", 0) == 0)
        {
          long i;
          unsigned long rs;
          sscanf(line.c_str() + 2, "%ld %lu", &i, &rs);
          w.next = i + workers;
          w.current = rs;
          w.running_case = true;
        }
        else if (line.rfind("R ", 0) == 0)
        {
          w.running_case = false;
          size_t sp = line.find(' ', 2);
          uint64_t rs = strtoull(line.c_str() + 2, nullptr, 10);
          Verdict v = deser<Verdict>(line.substr(sp + 1));
          ++evaluations;
          distinct_all.insert(v.hash);
          if (hd)
          {
            fprintf(hd, "%lu %lu %d %s\n", rs, v.hash, v.kind, v.tag.c_str());
          }
          for (auto const& kv : v.probes)
          {
            probes[kv.first] += kv.second;
          }
          if (v.kind == 0)
          {
            ++ok;
            if (v.nontrivial)
            {
              ++nontrivial;
              distinct_nt.insert(v.hash);
            }
          }
          else if (v.kind == 1)
          {
            ++viol;
            viol_seeds[sig(v)].push_back(rs);
          }
          else
          {
            ++inconc;
            inconc_reasons[v.tag]++;
          }
        }
        else if (line.rfind("X ", 0) == 0)
        {
          char name[128];
          unsigned long c;
          if (sscanf(line.c_str() + 2, "%127s %lu", name, &c) == 2)
          {
            extra_total[name] += c;
          }
        }
        else if (line == "DONE")
        {
          w.done = true;
        }
      }
      if (n <= 0)
      {
        close(w.fd);
        w.fd = -1;
        int st = 0;
        waitpid(w.pid, &st, 0);
        if (!w.done)
        {
          // the worker died inside a run: attribute it to the current seed, restart after it
          ++crashes;
          ++evaluations;
          ++viol;
          std::string tag = WIFSIGNALED(st) ? std::string("crash:") + strsignal(WTERMSIG(st)) : "crash:exit";
          std::replace(tag.begin(), tag.end(), ' ', '_');
          if (w.running_case)
          {
            viol_seeds[tag].push_back(w.current);
            // (a crash has no fields: its class is the tag alone)
          }
          if (w.next < runs && crashes < 200)
          {
            spawn(idx[k]);
            continue;
          }
        }
        --alive;
      }
    }
  }
  if (hd)
  {
    fclose(hd);
  }
  // ---- violations -----------------------------------------------------------------------------------------------
  std::vector<KnownFinding> kfs = load_known(known);
  int exit_code = 0;
  uint64_t unlisted = 0;
  std::vector<std::string> known_seen;
  (void)!system(("mkdir -p '" + replay_dir + "'").c_str());
  std::string scratch = root + "/min";
  for (auto const& kv : viol_seeds)
  {
    std::string const& key = kv.first;
    std::string const tag = key.substr(0, key.find('|'));
    uint64_t rs = kv.second.front();
    Case c = eng.gen(prop, rs, tier);
    bool crashed;
    Verdict first = run_forked(eng, c, scratch, crashed);
    // A crash is one class whatever signal ends the process: which one it is (SIGSEGV, SIGABRT from the allocator, SIGBUS)
    // depends on what the corrupted memory happens to hold, so a crash reproduces if the re-execution crashes too.
    auto same_class = [](std::string const& a, std::string const& b)
    { return a == b || (a.rfind("crash:", 0) == 0 && b.rfind("crash:", 0) == 0); };
    if (first.kind != 1 || !same_class(sig(first), key))
    {
      printf("HARNESS-ERROR: violation %s of seed %lu did not reproduce (got %s)\n", tag.c_str(), rs, first.tag.c_str());
      exit_code = 2;
      continue;
    }
    Case m = c;
    int budget = 300;
    auto fails = [&](Case const& cand) -> bool
    {
      if (budget-- <= 0)
      {
        return false;
      }
      bool cr;
      Verdict v = run_forked(eng, cand, scratch, cr);
      return v.kind == 1 && same_class(sig(v), key);
    };
    if (!no_min)
    {
      size_t chunk = m.ops.size() / 2;
      while (chunk >= 1 && budget > 0)
      {
        for (size_t start = 0; start < m.ops.size() && budget > 0;)
        {
          Case cand = m;
          size_t end = std::min(start + chunk, cand.ops.size());
          cand.ops.erase(cand.ops.begin() + static_cast<long>(start), cand.ops.begin() + static_cast<long>(end));
          if (cand.ops.size() < m.ops.size() && fails(cand))
          {
            m = cand;
          }
          else
          {
            start = end;
          }
        }
        if (chunk == 1)
        {
          break;
        }
        chunk /= 2;
      }
    }
    bool c1, c2;
    Verdict g1 = run_forked(eng, m, scratch, c1), g2 = run_forked(eng, m, scratch, c2);
    bool const is_crash = key.rfind("crash:", 0) == 0;
    if (g1.kind != 1 || g2.kind != 1 || !same_class(sig(g1), key) || !same_class(sig(g2), key) || (!is_crash && g1.hash != g2.hash))
    {
      printf("HARNESS-ERROR: minimised case for %s (seed %lu) does not replay deterministically\n", tag.c_str(), rs);
      exit_code = 2;
      continue;
    }
    KnownFinding const* kf = nullptr;
    for (auto const& k : kfs)
    {
      if (k.property != prop || k.tag != tag)
      {
        continue;
      }
      bool okf = true;
      for (auto const& f : k.fields)
      {
        auto it = g1.fields.find(f.first);
        if (it == g1.fields.end() || it->second != f.second)
        {
          okf = false;
        }
      }
      if (okf)
      {
        kf = &k;
        break;
      }
    }
    std::string safe = key;
    for (auto& ch : safe)
    {
      if (!isalnum(static_cast<unsigned char>(ch)) && ch != '_' && ch != '-')
      {
        ch = '_';
      }
    }
    std::string path = replay_dir + "/" + prop + "-" + safe + "-" + std::to_string(rs) + ".replay";
    {
      std::ofstream f(path);
      f << m.to_text();
      f << "# violation " << tag << "\n";
      for (auto const& fkv : g1.fields)
      {
        f << "# field " << fkv.first << "=" << esc(fkv.second) << "\n";
      }
      f << "# detail " << esc(g1.detail) << "\n";
      f << "# ops " << m.ops.size() << " (original " << c.ops.size() << "), seeds with this class in the batch: " << kv.second.size() << "\n";
    }
    if (kf)
    {
      printf("KNOWN-FINDING: property=%s %s [tag=%s seeds=%zu replay=%s]\n", prop.c_str(), kf->description.c_str(), tag.c_str(),
             kv.second.size(), path.c_str());
      known_seen.push_back(tag);
    }
    else
    {
      printf("VIOLATION property=%s replay=%s\n", prop.c_str(), path.c_str());
      printf("  class=%s seeds_in_batch=%zu minimised_ops=%zu detail=%s\n", tag.c_str(), kv.second.size(), m.ops.size(),
             g1.detail.substr(0, 700).c_str());
      ++unlisted;
      if (exit_code == 0)
      {
        exit_code = 1;
      }
    }
  }
  double wall = std::chrono::duration<double>(std::chrono::steady_clock::now() - t0).count();
  if (!evidence.empty())
  {
    std::ostringstream o;
    o << "{\n \"property_id\": " << json_str(prop) << ",\n \"tier\": " << json_str(tier ? "thorough" : "quick") << ",\n \"seed\": "
      << seed << ",\n \"level\": \"exploration\",\n \"coverage\": {\n";
    o << "  \"evaluations\": " << evaluations << ",\n  \"distinct_nontrivial\": " << distinct_nt.size() << ",\n";
    o << "  \"rule\": " << json_str(info.rule) << ",\n  \"samples\": [";
    for (int i = 0; i < 3 && i < runs; ++i)
    {
      Case c = eng.gen(prop, run_seed(i), tier);
      o << (i ? ", " : "") << json_str(eng.sample ? eng.sample(c) : c.to_text().substr(0, 1500));
    }
    o << "],\n  \"engine\": " << json_str(eng.description) << ",\n";
    o << "  \"runs_ok\": " << ok << ", \"runs_nontrivial\": " << nontrivial << ", \"runs_inconclusive\": " << inconc
      << ", \"runs_violating\": " << viol << ", \"worker_crashes\": " << crashes << ",\n";
    o << "  \"distinct_hashes_all_runs\": " << distinct_all.size() << ",\n";
    o << "  \"runs_per_hour\": " << static_cast<uint64_t>(wall > 0 ? static_cast<double>(evaluations) * 3600.0 / wall : 0) << ",\n";
    o << "  \"seeds\": \"run i uses mix(VERIF_SEED=" << seed << ", property, i), i in [0," << evaluations << ")\",\n";
    o << "  \"probes\": {";
    bool first = true;
    for (auto const& kv : probes)
    {
      o << (first ? "" : ", ") << json_str(kv.first) << ": " << kv.second;
      first = false;
    }
    for (auto const& kv : extra_total)
    {
      o << (first ? "" : ", ") << json_str(kv.first) << ": " << kv.second;
      first = false;
    }
    o << "},\n  \"inconclusive_reasons\": {";
    first = true;
    for (auto const& kv : inconc_reasons)
    {
      o << (first ? "" : ", ") << json_str(kv.first) << ": " << kv.second;
      first = false;
    }
    o << "},\n  \"known_findings_seen\": [";
    for (size_t i = 0; i < known_seen.size(); ++i)
    {
      o << (i ? ", " : "") << json_str(known_seen[i]);
    }
    o << "],\n  \"real_components\": [";
    for (size_t i = 0; i < info.real_components.size(); ++i)
    {
      o << (i ? ", " : "") << json_str(info.real_components[i]);
    }
    o << "],\n  \"stub_components\": [";
    for (size_t i = 0; i < info.stub_components.size(); ++i)
    {
      o << (i ? ", " : "") << json_str(info.stub_components[i]);
    }
    o << "]\n },\n \"assumptions\": [";
    for (size_t i = 0; i < info.assumptions.size(); ++i)
    {
      o << (i ? ", " : "") << json_str(info.assumptions[i]);
    }
    o << "],\n \"wall_s\": " << wall << ",\n \"violations\": " << unlisted << "\n}\n";
    std::ofstream f(evidence);
    f << o.str();
  }
  printf("%s %s [%s]: runs=%lu ok=%lu nontrivial=%lu distinct_nontrivial=%zu inconclusive=%lu violating=%lu wall=%.1fs (%.0f runs/s)\n",
         prop.c_str(), tier ? "thorough" : "quick", eng.name.c_str(), evaluations, ok, nontrivial, distinct_nt.size(), inconc, viol,
         wall, wall > 0 ? static_cast<double>(evaluations) / wall : 0.0);
  for (auto const& kv : probes)
  {
    printf("  probe %-46s %lu%s\n", kv.first.c_str(), kv.second, kv.second == 0 ? "   <-- WARNING: never hit" : "");
  }
  for (auto const& kv : extra_total)
  {
    printf("  count %-46s %lu\n", kv.first.c_str(), kv.second);
  }
  cleanup();
  return exit_code;
}
} // namespace bd
