// prelude.h — the textual seam (DESIGN.md 2.1a). Include this INSTEAD of quill headers; it
//   1. includes every standard / system header quill uses (their include guards are then set),
//   2. declares the simulator's replacement for std::atomic,
//   3. defines four token macros that only affect the text of quill's own headers,
//   4. includes the quill headers selected by SIM_QUILL_INCLUDES, and
//   5. removes the macros again.
// Nothing in /repo is modified.
#pragma once

#include <algorithm>
#include <array>
#include <atomic>
#include <bitset>
#include <cassert>
#include <cctype>
#include <cerrno>
#include <chrono>
#include <climits>
#include <cmath>
#include <codecvt>
#include <complex>
#include <condition_variable>
#include <csignal>
#include <cstddef>
#include <cstdint>
#include <cstdio>
#include <cstdlib>
#include <cstring>
#include <ctime>
#include <cwchar>
#include <cxxabi.h>
#include <deque>
#include <exception>
#include <fcntl.h>
#include <filesystem>
#include <forward_list>
#include <fstream>
#include <functional>
#include <initializer_list>
#include <iostream>
#include <iterator>
#include <limits.h>
#include <limits>
#include <list>
#include <locale>
#include <map>
#include <memory>
#include <mutex>
#include <new>
#include <optional>
#include <ostream>
#include <pthread.h>
#include <sched.h>
#include <set>
#include <stdexcept>
#include <stdio.h>
#include <string.h>
#include <string>
#include <string_view>
#include <sys/mman.h>
#include <sys/stat.h>
#include <sys/syscall.h>
#include <sys/types.h>
#include <system_error>
#include <thread>
#include <tuple>
#include <type_traits>
#include <typeinfo>
#include <unistd.h>
#include <unordered_map>
#include <unordered_set>
#include <utility>
#include <variant>
#include <vector>
#include <version>
#if defined(__x86_64__)
  #include <emmintrin.h>
  #include <x86gprintrin.h>
  #include <x86intrin.h>
#endif

#include "sim.h"

#ifndef SIM_ATOMIC_HEADER
  #define SIM_ATOMIC_HEADER "atomic_sc.h"
#endif
#include SIM_ATOMIC_HEADER

#define atomic sim_atomic
#define atomic_thread_fence sim_atomic_thread_fence
#define atomic_signal_fence sim_atomic_signal_fence
#undef __rdtsc
#define __rdtsc() ::sim::rdtsc()
#define syscall sim_syscall_shim

#ifdef SIM_QUILL_INCLUDES
  #include SIM_QUILL_INCLUDES
#endif

#undef atomic
#undef atomic_thread_fence
#undef atomic_signal_fence
#undef __rdtsc
#undef syscall
