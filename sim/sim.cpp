// sim.cpp — deterministic scheduler (real pthreads, one baton), virtual clock, and link-time
// interposition of the libc / pthread entry points through which quill meets nondeterminism.
// See DESIGN.md 2.1(b), 2.2.  Everything is decided by one PRNG stream seeded from Config.
#ifndef _GNU_SOURCE
  #define _GNU_SOURCE
#endif
#include "sim.h"

#include <cerrno>
#include <csignal>
#include <cstdarg>
#include <cstdio>
#include <cstdlib>
#include <cstring>
#include <ctime>
#include <dlfcn.h>
#include <linux/futex.h>
#include <pthread.h>
#include <sched.h>
#include <sys/mman.h>
#include <sys/syscall.h>
#include <sys/time.h>
#include <unistd.h>

namespace sim
{
namespace
{
constexpr int MAX_THREADS = 4096;

enum State : int
{
  READY = 0,
  SLEEPING,
  BLK_MUTEX,
  BLK_CV,
  BLK_JOIN,
  BLK_FOREVER,
  DONE
};

struct Thread
{
  int id = 0;
  int go = 0; // futex word: 1 = you hold the baton
  int state = READY;
  bool has_deadline = false;
  uint64_t deadline = 0;
  uint64_t sleep_len = 0;
  void* wait_obj = nullptr;
  bool timed_out = false;
  pthread_t pth{};
  void* (*fn)(void*) = nullptr;
  void* arg = nullptr;
  uint64_t yields = 0;
  uint32_t consec_clock = 0;
  uint8_t last_kind = 0;
  int64_t prio = 0;
  uint64_t run_streak = 0;
  AllocCounters ac;
  bool retired = false;
};

struct Rng
{
  uint64_t s = 0x9E3779B97F4A7C15ull;
  uint64_t next()
  {
    uint64_t z = (s += 0x9E3779B97F4A7C15ull);
    z = (z ^ (z >> 30)) * 0xBF58476D1CE4E5B9ull;
    z = (z ^ (z >> 27)) * 0x94D049BB133111EBull;
    return z ^ (z >> 31);
  }
  uint32_t below(uint32_t n) { return n <= 1 ? 0 : static_cast<uint32_t>(next() % n); }
};

struct SimMutex
{
  void* addr;
  Thread* owner;
};

// ---- global state: touched only by the baton holder -------------------------------------------
Thread* g_threads[MAX_THREADS];
int g_nthreads = 0;
bool g_active = false;
bool g_clock_only = false;
bool g_in_sched = false;
Config g_cfg;
Stats g_stats;
Rng g_rng;
uint64_t g_now = 0;
uint64_t g_seq = 0;
bool g_fair = false;
uint32_t g_rr_left = 0;
uint64_t g_idle_jumps = 0;
uint64_t g_quiet_steps = 0;
int64_t g_pct_low = -1;
uint64_t g_pct_points[8];
AbandonHandler g_abandon = nullptr;
Stall g_stalls[64];
int g_nstalls = 0;
SimMutex g_mutexes[256];
int g_nmutexes = 0;
Thread* g_exiter = nullptr;
void* g_fwrite_fault_stream = nullptr;
uint32_t g_fwrite_fault_count = 0;
uint64_t g_fwrite_faults_fired = 0;

thread_local Thread* t_self = nullptr;

inline long raw_futex(int* addr, int op, int val)
{
  return ::syscall(SYS_futex, addr, op, val, nullptr, nullptr, 0);
}

void park(Thread* t)
{
  // no spinning: each run is pinned to one core, the waker parks right after waking us
  while (__atomic_load_n(&t->go, __ATOMIC_ACQUIRE) == 0)
  {
    raw_futex(&t->go, FUTEX_WAIT_PRIVATE, 0);
  }
  __atomic_store_n(&t->go, 0, __ATOMIC_RELAXED);
}

void unpark(Thread* t)
{
  __atomic_store_n(&t->go, 1, __ATOMIC_RELEASE);
  raw_futex(&t->go, FUTEX_WAKE_PRIVATE, 1);
}

inline void mix(uint64_t v)
{
  g_stats.hash ^= v;
  g_stats.hash *= 1099511628211ull;
}

SimMutex* find_mutex(void* addr, bool create)
{
  for (int i = 0; i < g_nmutexes; ++i)
  {
    if (g_mutexes[i].addr == addr)
    {
      return &g_mutexes[i];
    }
  }
  if (!create)
  {
    return nullptr;
  }
  // reuse a free slot
  for (int i = 0; i < g_nmutexes; ++i)
  {
    if (g_mutexes[i].owner == nullptr)
    {
      g_mutexes[i].addr = addr;
      return &g_mutexes[i];
    }
  }
  if (g_nmutexes >= 256)
  {
    fprintf(stderr, "sim: too many mutexes\n");
    _exit(2);
  }
  g_mutexes[g_nmutexes].addr = addr;
  g_mutexes[g_nmutexes].owner = nullptr;
  return &g_mutexes[g_nmutexes++];
}

bool runnable_now(Thread* t)
{
  if (t->state == READY)
  {
    return true;
  }
  if ((t->state == SLEEPING || t->state == BLK_CV) && t->has_deadline && t->deadline <= g_now)
  {
    return true;
  }
  return false;
}

void make_ready(Thread* t)
{
  if (t->state == BLK_CV && t->has_deadline && t->deadline <= g_now)
  {
    t->timed_out = true;
  }
  t->state = READY;
  t->has_deadline = false;
  t->wait_obj = nullptr;
}

// Choose the thread that runs next. `me` may be null (exiting thread). Returns nullptr on deadlock.
Thread* choose(Thread* me, bool can_continue, uint8_t kind)
{
  Thread* cand[MAX_THREADS];
  int n = 0;
  for (;;)
  {
    n = 0;
    for (int i = 0; i < g_nthreads; ++i)
    {
      Thread* t = g_threads[i];
      if (t->state != DONE && runnable_now(t))
      {
        cand[n++] = t;
      }
    }
    if (n > 0)
    {
      break;
    }
    // nothing can run: discrete-event jump to the earliest deadline
    Thread* first = nullptr;
    for (int i = 0; i < g_nthreads; ++i)
    {
      Thread* t = g_threads[i];
      if ((t->state == SLEEPING || t->state == BLK_CV) && t->has_deadline)
      {
        if (!first || t->deadline < first->deadline)
        {
          first = t;
        }
      }
    }
    if (!first)
    {
      return nullptr;
    }
    uint64_t target = first->deadline;
    ++g_idle_jumps;
    if (g_idle_jumps > 8 && first->state == SLEEPING)
    {
      // Idle polling: nothing but sleep-poll cycles has happened for a while. Let the sleeper
      // oversleep (legal for every sleep primitive) by an exponentially growing amount, so that a
      // 100 ns poll loop waiting for a 60 s backend sleep costs tens of steps, not 10^8.
      uint64_t sh = g_idle_jumps - 8;
      if (sh > 40)
      {
        sh = 40;
      }
      uint64_t base = first->sleep_len ? first->sleep_len : 1;
      uint64_t extra = base << sh;
      if (extra > (1ull << 40))
      {
        extra = 1ull << 40;
      }
      target += extra;
    }
    if (target > g_now)
    {
      g_now = target;
    }
    ++g_stats.time_jumps;
  }

  Thread* pick = nullptr;
  if (g_fair)
  {
    if (can_continue && kind != K_YIELD && kind != K_SLEEP && g_rr_left > 0)
    {
      --g_rr_left;
      pick = me;
    }
    else
    {
      int myid = me ? me->id : -1;
      // next in id order after me
      Thread* best = nullptr;
      for (int i = 0; i < n; ++i)
      {
        if (cand[i]->id > myid)
        {
          best = cand[i];
          break;
        }
      }
      pick = best ? best : cand[0];
      g_rr_left = 48;
    }
  }
  else if (g_cfg.policy == POLICY_PCT)
  {
    if (me && (kind == K_YIELD || kind == K_SLEEP || me->run_streak > 200))
    {
      me->prio = g_pct_low--;
      me->run_streak = 0;
    }
    for (int i = 0; i < n; ++i)
    {
      if (!pick || cand[i]->prio > pick->prio)
      {
        pick = cand[i];
      }
    }
  }
  else
  {
    if (can_continue && kind != K_YIELD && g_rng.below(g_cfg.den) != 0)
    {
      pick = me;
    }
    else if (kind == K_YIELD && n > 1 && can_continue)
    {
      // sched_yield always gives way when somebody else can run
      int k = static_cast<int>(g_rng.below(static_cast<uint32_t>(n - 1)));
      for (int i = 0; i < n; ++i)
      {
        if (cand[i] == me)
        {
          continue;
        }
        if (k-- == 0)
        {
          pick = cand[i];
          break;
        }
      }
    }
    else
    {
      pick = cand[g_rng.below(static_cast<uint32_t>(n))];
    }
  }
  if (pick->state != READY)
  {
    make_ready(pick);
  }
  return pick;
}

void reschedule(uint8_t kind)
{
  Thread* me = t_self;
  me->last_kind = kind;
  bool const can_continue = (me->state == READY);
  g_in_sched = true;
  Thread* next = choose(me, can_continue, kind);
  g_in_sched = false;
  if (!next)
  {
    abandon("deadlock");
  }
  if (next != me)
  {
    ++g_stats.switches;
    if (can_continue)
    {
      ++g_stats.preemptions;
    }
    me->run_streak = 0;
    unpark(next);
    park(me);
  }
  else
  {
    ++me->run_streak;
  }
}

void block_here(int state, void* obj, bool has_deadline, uint64_t deadline, uint8_t kind)
{
  Thread* me = t_self;
  me->state = state;
  me->wait_obj = obj;
  me->has_deadline = has_deadline;
  me->deadline = deadline;
  me->timed_out = false;
  reschedule(kind);
}

void check_stalls(Thread* me, uint8_t kind)
{
  for (int i = 0; i < g_nstalls; ++i)
  {
    Stall& s = g_stalls[i];
    if (s.fired || s.thread != me->id)
    {
      continue;
    }
    if (s.kind != 0 && s.kind != kind)
    {
      continue;
    }
    if (s.prev_kind != 0 && s.prev_kind != me->last_kind)
    {
      continue;
    }
    if (++s.seen >= s.nth)
    {
      s.fired = true;
      ++g_stats.stalls_fired;
      me->state = SLEEPING;
      me->has_deadline = true;
      me->deadline = g_now + s.duration_ns;
      me->sleep_len = s.duration_ns;
      return;
    }
  }
}

bool g_trace = false;
FILE* g_trace_file = nullptr; // SIM_TRACE=/path: trace into that file instead of stderr

void step_common(Thread* me, uint8_t kind, uint64_t value)
{
  if (g_trace)
  {
    // debugging aid for replays (SIM_TRACE=1); never draws from the PRNG or reads a real clock
    g_in_sched = true;
    fprintf(g_trace_file ? g_trace_file : stderr, "T%d k%d v%lu now=%lu step=%lu\n", me->id, kind, value, g_now, g_stats.steps);
    g_in_sched = false;
  }
  ++g_stats.steps;
  ++g_seq;
  ++me->yields;
  ++g_stats.kind_count[kind < K_KIND_MAX ? kind : 0];
  // fair phase: "faults stop, schedule is fair, time moves" — a coarser tick keeps every wait that
  // depends on elapsed time (the ordering grace period) within a few thousand steps
  g_now += (g_fair && g_cfg.delta_ns < 250) ? 250 : g_cfg.delta_ns;
  mix((static_cast<uint64_t>(me->id) << 8) | kind);
  mix(value);
  mix(g_now);
  if (kind == K_CLOCK)
  {
    if (++me->consec_clock > 16)
    {
      uint32_t sh = me->consec_clock - 16;
      if (sh > 20)
      {
        sh = 20;
      }
      g_now += static_cast<uint64_t>(g_cfg.delta_ns) << sh;
    }
  }
  else
  {
    me->consec_clock = 0;
  }
  if (kind == K_STORE || kind == K_RMW || kind == K_SINK || kind == K_CV_SIGNAL ||
      kind == K_CREATE || kind == K_EXIT || kind == K_FWRITE || kind == K_USER)
  {
    g_idle_jumps = 0;
    g_quiet_steps = 0;
  }
  else
  {
    ++g_quiet_steps;
    if (kind == K_LOAD && g_quiet_steps > 5000)
    {
      // A thread spinning on atomic loads only (a producer blocked on a full queue with retry
      // interval 0) while everybody else sleeps: let its steps take longer and longer, so that the
      // sleepers' deadlines (a 60 s backend sleep) are reached in thousands, not 10^8, steps.
      uint64_t sh = (g_quiet_steps - 5000) / 64;
      if (sh > 36)
      {
        sh = 36;
      }
      g_now += static_cast<uint64_t>(g_cfg.delta_ns) << sh;
    }
  }
  if (!g_fair)
  {
    if (g_stats.steps > g_cfg.budget_random)
    {
      g_fair = true;
    }
    else if (g_cfg.policy == POLICY_PCT)
    {
      for (uint32_t i = 0; i < g_cfg.pct_depth && i < 8; ++i)
      {
        if (g_pct_points[i] == g_stats.steps)
        {
          me->prio = g_pct_low--;
        }
      }
    }
  }
  else
  {
    if (++g_stats.fair_steps > g_cfg.budget_fair)
    {
      abandon("stuck");
    }
  }
}

struct Sentinel
{
  Thread* th = nullptr;
  ~Sentinel();
};
thread_local Sentinel t_sentinel;

void retire_current_thread()
{
  Thread* me = t_self;
  if (!me || me->retired || !g_active)
  {
    return;
  }
  if (me == g_exiter)
  {
    return; // exit() runs the caller's TLS destructors first; the thread lives on
  }
  step_common(me, K_EXIT, 0);
  me->retired = true;
  me->state = DONE;
  for (int i = 0; i < g_nthreads; ++i)
  {
    Thread* t = g_threads[i];
    if (t->state == BLK_JOIN && t->wait_obj == me)
    {
      make_ready(t);
    }
  }
  g_in_sched = true;
  Thread* next = choose(nullptr, false, K_EXIT);
  g_in_sched = false;
  t_self = nullptr;
  if (!next)
  {
    abandon("deadlock");
  }
  ++g_stats.switches;
  unpark(next);
  // no park: this thread is leaving
}

Sentinel::~Sentinel()
{
  if (th)
  {
    retire_current_thread();
  }
}

void* trampoline(void* p)
{
  Thread* th = static_cast<Thread*>(p);
  t_self = th;
  park(th);
  t_sentinel.th = th; // first thread_local constructed => destroyed after quill's
  void* r = th->fn(th->arg);
  return r;
}

// ---- real functions ----------------------------------------------------------------------------
template <typename F>
F real(char const* name)
{
  void* p = dlsym(RTLD_NEXT, name);
  if (!p)
  {
    fprintf(stderr, "sim: dlsym(%s) failed\n", name);
    _exit(2);
  }
  return reinterpret_cast<F>(p);
}

inline bool simulated() { return g_active && t_self != nullptr && !g_in_sched; }

} // namespace

// ---- public API --------------------------------------------------------------------------------
void clock_only_mode(bool on) { g_clock_only = on; }

void start(Config const& cfg)
{
  g_cfg = cfg;
  if (g_cfg.delta_ns == 0)
  {
    g_cfg.delta_ns = 1;
  }
  if (g_cfg.den == 0)
  {
    g_cfg.den = 1;
  }
  g_rng.s = cfg.sched_seed * 0x9E3779B97F4A7C15ull + 0x1234567;
  g_stats = Stats{};
  g_seq = 0;
  g_fair = false;
  g_idle_jumps = 0;
  g_quiet_steps = 0;
  g_pct_low = -1;
  g_nmutexes = 0;
  g_exiter = nullptr;
  for (uint32_t i = 0; i < 8; ++i)
  {
    g_pct_points[i] = 1 + g_rng.next() % (cfg.pct_horizon ? cfg.pct_horizon : 1);
  }
  Thread* t = new Thread;
  t->id = 0;
  t->state = READY;
  t->pth = pthread_self();
  t->prio = static_cast<int64_t>(g_rng.below(1000)) + 1;
  g_threads[0] = t;
  g_nthreads = 1;
  t_self = t;
  g_stats.threads_created = 1;
  g_clock_only = false;
  g_trace = getenv("SIM_TRACE") != nullptr;
  if (g_trace && getenv("SIM_TRACE")[0] == '/')
  {
    g_trace_file = fopen(getenv("SIM_TRACE"), "w");
  }
  g_active = true;
}

void stop()
{
  g_stats.now_ns = g_now;
  g_active = false;
}

bool active() { return g_active; }

Stats const& stats()
{
  g_stats.now_ns = g_now;
  return g_stats;
}

void add_stall(int thread, uint8_t kind, uint32_t nth, uint64_t duration_ns, uint8_t prev_kind)
{
  if (g_nstalls < 64)
  {
    g_stalls[g_nstalls++] = Stall{thread, kind, prev_kind, nth ? nth : 1, duration_ns, false, 0};
  }
}

void arm_stall(int thread, uint8_t kind, uint32_t nth, uint64_t duration_ns, uint8_t prev_kind)
{
  add_stall(thread, kind, nth, duration_ns, prev_kind);
}

void set_abandon_handler(AbandonHandler h) { g_abandon = h; }

void abandon(char const* reason)
{
  g_stats.now_ns = g_now;
  g_active = false;
  if (g_abandon)
  {
    g_abandon(reason);
  }
  fprintf(stderr, "sim: abandoned run: %s\n", reason);
  fflush(stderr);
  _exit(3);
}

int self_id() { return t_self ? t_self->id : -1; }
uint64_t now_ns() { return g_now; }
uint64_t event_seq() { return g_seq; }

uint64_t note(uint64_t tag, uint64_t value)
{
  ++g_seq;
  mix(tag * 1315423911ull + 7);
  mix(value);
  return g_seq;
}

void hash_mix(uint64_t v) { mix(v); }

void yield_point(uint8_t kind, uint64_t value)
{
  if (!simulated())
  {
    return;
  }
  Thread* me = t_self;
  step_common(me, kind, value);
  check_stalls(me, kind);
  reschedule(kind);
}

bool in_fair_phase() { return g_fair; }
void force_fair_phase() { g_fair = true; }

uint64_t rdtsc()
{
  if (simulated())
  {
    yield_point(K_RDTSC, 0);
  }
  return g_now * 3ull + 3000000ull;
}

static long syscall_shim_impl(long number, long a, long b, long c, long d, long e, long f)
{
  if (number == SYS_gettid && t_self && (g_active || g_clock_only))
  {
    return 1000 + t_self->id;
  }
  if (number == SYS_gettid && g_clock_only)
  {
    return 1000;
  }
  return ::syscall(number, a, b, c, d, e, f);
}

long syscall_shim(long number, ...)
{
  va_list ap;
  va_start(ap, number);
  long a = va_arg(ap, long), b = va_arg(ap, long), c = va_arg(ap, long), d = va_arg(ap, long),
       e = va_arg(ap, long), f = va_arg(ap, long);
  va_end(ap);
  return syscall_shim_impl(number, a, b, c, d, e, f);
}

uint32_t rnd(uint32_t n) { return g_rng.below(n); }

AllocCounters alloc_counters() { return t_self ? t_self->ac : AllocCounters{}; }

void count_alloc(bool is_mmap)
{
  if (t_self && g_active && !g_in_sched)
  {
    if (is_mmap)
    {
      ++t_self->ac.mmaps;
    }
    else
    {
      ++t_self->ac.mallocs;
    }
  }
}

void arm_fwrite_fault(void* stream, uint32_t count)
{
  g_fwrite_fault_stream = stream; // nullptr = any stream except stdout / stderr
  g_fwrite_fault_count += count;
}
uint64_t fwrite_faults_fired() { return g_fwrite_faults_fired; }

int thread_count() { return g_nthreads; }
bool thread_done(int id) { return id < g_nthreads && g_threads[id]->state == DONE; }
int thread_state(int id) { return id < g_nthreads ? g_threads[id]->state : -1; }
uint64_t thread_yields(int id) { return id < g_nthreads ? g_threads[id]->yields : 0; }

// internal entry points used by the interposed functions below
namespace ipc
{
// Polling threads: when nothing but loads, clock reads, sleeps and yields has happened for a long
// time (every running thread is polling, e.g. flush_log() callers while the backend sleeps for a
// minute), a poller that goes to sleep oversleeps until the latest deadline any other thread is
// waiting for — i.e. until the next moment at which something can change. Oversleeping is legal for
// every sleep primitive; the global clock itself is never accelerated, so a thread that measures
// time (RdtscClock::resync) is not disturbed.
uint64_t poll_oversleep(uint64_t ns)
{
  if (g_quiet_steps <= 1500)
  {
    return 0;
  }
  uint64_t const own = g_now + ns;
  uint64_t mx = 0;
  for (int i = 0; i < g_nthreads; ++i)
  {
    Thread* t = g_threads[i];
    if (t != t_self && (t->state == SLEEPING || t->state == BLK_CV) && t->has_deadline && t->deadline > mx)
    {
      mx = t->deadline;
    }
  }
  if (mx > own + (1ull << 42))
  {
    mx = own + (1ull << 42);
  }
  return mx > own ? mx - own + 1 : 0;
}

uint64_t clock_read()
{
  if (simulated())
  {
    yield_point(K_CLOCK, 0);
  }
  else
  {
    g_now += 20000; // clock-only (pre-touch) mode: coarse ticks keep calibration loops short
  }
  return g_now;
}

void sleep_ns(uint64_t ns)
{
  Thread* me = t_self;
  step_common(me, K_SLEEP, ns);
  check_stalls(me, K_SLEEP);
  if (me->state == READY)
  {
    me->state = SLEEPING;
    me->has_deadline = true;
    me->deadline = g_now + ns + poll_oversleep(ns);
    me->sleep_len = ns;
  }
  reschedule(K_SLEEP);
}

int mutex_lock(void* m, bool try_only)
{
  yield_point(K_MUTEX, 0);
  SimMutex* sm = find_mutex(m, true);
  while (sm->owner != nullptr)
  {
    if (try_only)
    {
      return EBUSY;
    }
    if (sm->owner == t_self)
    {
      abandon("harness:recursive-mutex");
    }
    Thread* me = t_self;
    step_common(me, K_MUTEX, 1);
    block_here(BLK_MUTEX, m, false, 0, K_MUTEX);
    sm = find_mutex(m, true);
  }
  sm->owner = t_self;
  return 0;
}

int mutex_unlock(void* m)
{
  SimMutex* sm = find_mutex(m, false);
  if (sm && sm->owner == t_self)
  {
    sm->owner = nullptr;
    for (int i = 0; i < g_nthreads; ++i)
    {
      Thread* t = g_threads[i];
      if (t->state == BLK_MUTEX && t->wait_obj == m)
      {
        make_ready(t);
      }
    }
  }
  yield_point(K_MUTEX, 2);
  return 0;
}

int cond_wait(void* c, void* m, bool timed, uint64_t deadline_virtual)
{
  Thread* me = t_self;
  // release the mutex
  SimMutex* sm = find_mutex(m, false);
  if (sm && sm->owner == me)
  {
    sm->owner = nullptr;
    for (int i = 0; i < g_nthreads; ++i)
    {
      Thread* t = g_threads[i];
      if (t->state == BLK_MUTEX && t->wait_obj == m)
      {
        make_ready(t);
      }
    }
  }
  step_common(me, K_CV_WAIT, timed ? 1 : 0);
  check_stalls(me, K_CV_WAIT);
  bool spurious = false;
  if (g_cfg.spurious_cv_permille && !g_fair && g_rng.below(1000) < g_cfg.spurious_cv_permille)
  {
    spurious = true;
    ++g_stats.spurious_cv;
  }
  int result = 0;
  if (me->state == READY && !spurious)
  {
    block_here(BLK_CV, c, timed, deadline_virtual, K_CV_WAIT);
    result = me->timed_out ? ETIMEDOUT : 0;
    me->timed_out = false;
  }
  else
  {
    reschedule(K_CV_WAIT);
  }
  // re-acquire
  sm = find_mutex(m, true);
  while (sm->owner != nullptr)
  {
    step_common(me, K_MUTEX, 1);
    block_here(BLK_MUTEX, m, false, 0, K_MUTEX);
    sm = find_mutex(m, true);
  }
  sm->owner = me;
  return result;
}

int cond_wake(void* c, bool all)
{
  for (int i = 0; i < g_nthreads; ++i)
  {
    Thread* t = g_threads[i];
    if (t->state == BLK_CV && t->wait_obj == c)
    {
      t->state = READY;
      t->has_deadline = false;
      t->wait_obj = nullptr;
      t->timed_out = false;
      if (!all)
      {
        break;
      }
    }
  }
  yield_point(K_CV_SIGNAL, all ? 1 : 0);
  return 0;
}

int thread_create(pthread_t* out, pthread_attr_t const* attr, void* (*fn)(void*), void* arg)
{
  static auto real_create =
    real<int (*)(pthread_t*, pthread_attr_t const*, void* (*)(void*), void*)>("pthread_create");
  if (g_nthreads >= MAX_THREADS)
  {
    abandon("harness:too-many-threads");
  }
  g_in_sched = true;
  Thread* t = new Thread;
  g_in_sched = false;
  t->id = g_nthreads;
  t->state = READY;
  t->fn = fn;
  t->arg = arg;
  t->prio = static_cast<int64_t>(g_rng.below(1000)) + 1;
  g_threads[g_nthreads++] = t;
  ++g_stats.threads_created;
  g_in_sched = true;
  int rc = real_create(&t->pth, attr, trampoline, t);
  g_in_sched = false;
  if (rc != 0)
  {
    abandon("harness:pthread_create-failed");
  }
  *out = t->pth;
  yield_point(K_CREATE, static_cast<uint64_t>(t->id));
  return 0;
}

Thread* find_by_pthread(pthread_t p)
{
  for (int i = 0; i < g_nthreads; ++i)
  {
    if (pthread_equal(g_threads[i]->pth, p))
    {
      return g_threads[i];
    }
  }
  return nullptr;
}

int thread_join(pthread_t p, void** ret)
{
  static auto real_join = real<int (*)(pthread_t, void**)>("pthread_join");
  Thread* target = find_by_pthread(p);
  if (!target)
  {
    return real_join(p, ret);
  }
  yield_point(K_JOIN, static_cast<uint64_t>(target->id));
  while (target->state != DONE)
  {
    Thread* me = t_self;
    step_common(me, K_JOIN, 1);
    block_here(BLK_JOIN, target, false, 0, K_JOIN);
  }
  g_in_sched = true;
  int rc = real_join(p, ret);
  g_in_sched = false;
  // forget the pthread id so a recycled pthread_t does not match a dead thread
  memset(&target->pth, 0, sizeof(target->pth));
  return rc;
}

void block_forever()
{
  Thread* me = t_self;
  step_common(me, K_USER, 99);
  block_here(BLK_FOREVER, nullptr, false, 0, K_USER);
}

void mark_exiter() { g_exiter = t_self; }
bool exiting() { return g_exiter != nullptr; }

bool fwrite_should_fail(void* stream)
{
  if (g_fwrite_fault_count > 0 && (g_fwrite_fault_stream == nullptr || stream == g_fwrite_fault_stream))
  {
    --g_fwrite_fault_count;
    ++g_fwrite_faults_fired;
    return true;
  }
  return false;
}
} // namespace ipc

void park_forever() { ipc::block_forever(); }
bool exiting() { return ipc::exiting(); }
} // namespace sim

long sim_syscall_shim(long number, ...)
{
  va_list ap;
  va_start(ap, number);
  long a = va_arg(ap, long), b = va_arg(ap, long), c = va_arg(ap, long), d = va_arg(ap, long),
       e = va_arg(ap, long), f = va_arg(ap, long);
  va_end(ap);
  return sim::syscall_shim(number, a, b, c, d, e, f);
}

// ================================================================================================
// Interposed libc / pthread symbols. Strong definitions in the executable pre-empt libc's for all
// callers, including libstdc++.so. Each passes straight through when the simulation is not active
// or the caller is not a simulated thread.
// ================================================================================================
// first value the wall clock returned to this thread since mark_clock_read() (what a statement's timestamp must be)
static thread_local bool t_clock_mark_armed = false;
static thread_local uint64_t t_first_clock_read = 0;
namespace sim
{
void mark_clock_read()
{
  t_clock_mark_armed = true;
  t_first_clock_read = 0;
}
uint64_t first_clock_read()
{
  t_clock_mark_armed = false;
  return t_first_clock_read;
}
} // namespace sim

using namespace sim;

extern "C"
{
int clock_gettime(clockid_t clk, struct timespec* ts)
{
  static auto real_fn = real<int (*)(clockid_t, struct timespec*)>("clock_gettime");
  if ((g_active && t_self && !g_in_sched) || g_clock_only)
  {
    if (clk == CLOCK_REALTIME || clk == CLOCK_MONOTONIC || clk == CLOCK_REALTIME_COARSE ||
        clk == CLOCK_MONOTONIC_COARSE || clk == CLOCK_MONOTONIC_RAW || clk == CLOCK_BOOTTIME)
    {
      uint64_t v = ipc::clock_read();
      if (clk == CLOCK_REALTIME || clk == CLOCK_REALTIME_COARSE)
      {
        v += g_cfg.epoch_ns;
        if (t_clock_mark_armed)
        {
          t_clock_mark_armed = false;
          t_first_clock_read = v;
        }
      }
      else
      {
        v += 1000000000ull; // monotonic clock starts at 1 s
      }
      ts->tv_sec = static_cast<time_t>(v / 1000000000ull);
      ts->tv_nsec = static_cast<long>(v % 1000000000ull);
      return 0;
    }
  }
  return real_fn(clk, ts);
}

time_t time(time_t* out)
{
  static auto real_fn = real<time_t (*)(time_t*)>("time");
  if ((g_active && t_self && !g_in_sched) || g_clock_only)
  {
    time_t v = static_cast<time_t>((g_now + g_cfg.epoch_ns) / 1000000000ull);
    if (out)
    {
      *out = v;
    }
    return v;
  }
  return real_fn(out);
}

int gettimeofday(struct timeval* tv, void* tz)
{
  static auto real_fn = real<int (*)(struct timeval*, void*)>("gettimeofday");
  if ((g_active && t_self && !g_in_sched) || g_clock_only)
  {
    uint64_t v = ipc::clock_read() + g_cfg.epoch_ns;
    tv->tv_sec = static_cast<time_t>(v / 1000000000ull);
    tv->tv_usec = static_cast<suseconds_t>((v % 1000000000ull) / 1000);
    return 0;
  }
  return real_fn(tv, tz);
}

int nanosleep(struct timespec const* req, struct timespec* rem)
{
  static auto real_fn = real<int (*)(struct timespec const*, struct timespec*)>("nanosleep");
  if (simulated())
  {
    uint64_t ns = static_cast<uint64_t>(req->tv_sec) * 1000000000ull + static_cast<uint64_t>(req->tv_nsec);
    ipc::sleep_ns(ns);
    if (rem)
    {
      rem->tv_sec = 0;
      rem->tv_nsec = 0;
    }
    return 0;
  }
  return real_fn(req, rem);
}

int clock_nanosleep(clockid_t clk, int flags, struct timespec const* req, struct timespec* rem)
{
  static auto real_fn =
    real<int (*)(clockid_t, int, struct timespec const*, struct timespec*)>("clock_nanosleep");
  if (simulated())
  {
    uint64_t ns = static_cast<uint64_t>(req->tv_sec) * 1000000000ull + static_cast<uint64_t>(req->tv_nsec);
    if (flags & TIMER_ABSTIME)
    {
      uint64_t base = (clk == CLOCK_REALTIME) ? g_cfg.epoch_ns : 1000000000ull;
      uint64_t now = g_now + base;
      ns = ns > now ? ns - now : 0;
    }
    ipc::sleep_ns(ns);
    return 0;
  }
  return real_fn(clk, flags, req, rem);
}

int usleep(useconds_t us)
{
  static auto real_fn = real<int (*)(useconds_t)>("usleep");
  if (simulated())
  {
    ipc::sleep_ns(static_cast<uint64_t>(us) * 1000ull);
    return 0;
  }
  return real_fn(us);
}

int sched_yield(void)
{
  static auto real_fn = real<int (*)(void)>("sched_yield");
  if (simulated())
  {
    if (g_quiet_steps > 1500)
    {
      ipc::sleep_ns(0); // a yield-based poll loop: treat as a (growing) sleep, see poll_oversleep
    }
    else
    {
      yield_point(K_YIELD, 0);
    }
    return 0;
  }
  return real_fn();
}


int pthread_mutex_lock(pthread_mutex_t* m)
{
  if (simulated())
  {
    return ipc::mutex_lock(m, false);
  }
  static auto real_fn = real<int (*)(pthread_mutex_t*)>("pthread_mutex_lock");
  return real_fn(m);
}

int pthread_mutex_trylock(pthread_mutex_t* m)
{
  if (simulated())
  {
    return ipc::mutex_lock(m, true);
  }
  static auto real_fn = real<int (*)(pthread_mutex_t*)>("pthread_mutex_trylock");
  return real_fn(m);
}

int pthread_mutex_unlock(pthread_mutex_t* m)
{
  if (simulated())
  {
    return ipc::mutex_unlock(m);
  }
  static auto real_fn = real<int (*)(pthread_mutex_t*)>("pthread_mutex_unlock");
  return real_fn(m);
}

int pthread_cond_wait(pthread_cond_t* c, pthread_mutex_t* m)
{
  static auto real_fn = real<int (*)(pthread_cond_t*, pthread_mutex_t*)>("pthread_cond_wait");
  if (simulated())
  {
    return ipc::cond_wait(c, m, false, 0);
  }
  return real_fn(c, m);
}

static uint64_t abstime_to_virtual(clockid_t clk, struct timespec const* abst)
{
  uint64_t v = static_cast<uint64_t>(abst->tv_sec) * 1000000000ull + static_cast<uint64_t>(abst->tv_nsec);
  uint64_t base = (clk == CLOCK_REALTIME) ? g_cfg.epoch_ns : 1000000000ull;
  return v > base ? v - base : 0;
}

int pthread_cond_timedwait(pthread_cond_t* c, pthread_mutex_t* m, struct timespec const* abst)
{
  static auto real_fn =
    real<int (*)(pthread_cond_t*, pthread_mutex_t*, struct timespec const*)>("pthread_cond_timedwait");
  if (simulated())
  {
    return ipc::cond_wait(c, m, true, abstime_to_virtual(CLOCK_REALTIME, abst));
  }
  return real_fn(c, m, abst);
}

int pthread_cond_clockwait(pthread_cond_t* c, pthread_mutex_t* m, clockid_t clk, struct timespec const* abst)
{
  static auto real_fn =
    real<int (*)(pthread_cond_t*, pthread_mutex_t*, clockid_t, struct timespec const*)>("pthread_cond_clockwait");
  if (simulated())
  {
    return ipc::cond_wait(c, m, true, abstime_to_virtual(clk, abst));
  }
  return real_fn(c, m, clk, abst);
}

int pthread_cond_signal(pthread_cond_t* c)
{
  static auto real_fn = real<int (*)(pthread_cond_t*)>("pthread_cond_signal");
  if (simulated())
  {
    return ipc::cond_wake(c, false);
  }
  return real_fn(c);
}

int pthread_cond_broadcast(pthread_cond_t* c)
{
  static auto real_fn = real<int (*)(pthread_cond_t*)>("pthread_cond_broadcast");
  if (simulated())
  {
    return ipc::cond_wake(c, true);
  }
  return real_fn(c);
}

int pthread_create(pthread_t* out, pthread_attr_t const* attr, void* (*fn)(void*), void* arg)
{
  static auto real_fn =
    real<int (*)(pthread_t*, pthread_attr_t const*, void* (*)(void*), void*)>("pthread_create");
  if (simulated())
  {
    return ipc::thread_create(out, attr, fn, arg);
  }
  return real_fn(out, attr, fn, arg);
}

int pthread_join(pthread_t p, void** ret)
{
  static auto real_fn = real<int (*)(pthread_t, void**)>("pthread_join");
  if (simulated())
  {
    return ipc::thread_join(p, ret);
  }
  return real_fn(p, ret);
}

int pause(void)
{
  static auto real_fn = real<int (*)(void)>("pause");
  if (simulated())
  {
    // quill's signal handler parks every thread but the first in pause(): in the simulation the thread simply
    // never runs again (no signal is ever delivered to it asynchronously)
    ipc::block_forever();
    errno = EINTR;
    return -1;
  }
  return real_fn();
}

unsigned int alarm(unsigned int seconds)
{
  static auto real_fn = real<unsigned int (*)(unsigned int)>("alarm");
  if (g_active)
  {
    return 0; // virtual time: the wall-clock watchdog of the signal handler is never armed
  }
  return real_fn(seconds);
}

void exit(int status)
{
  static auto real_fn = real<void (*)(int)>("exit");
  if (simulated())
  {
    ipc::mark_exiter();
    yield_point(K_USER, 77);
  }
  real_fn(status);
  __builtin_unreachable();
}

size_t fwrite(void const* ptr, size_t size, size_t n, FILE* stream)
{
  static auto real_fn = real<size_t (*)(void const*, size_t, size_t, FILE*)>("fwrite");
  if (simulated() && stream != stderr && stream != stdout)
  {
    yield_point(K_FWRITE, size * n);
    if (ipc::fwrite_should_fail(stream))
    {
      errno = ENOSPC;
      return 0;
    }
  }
  return real_fn(ptr, size, n, stream);
}
}

#ifdef SIM_COUNT_ALLOCS
// C11: count allocations per simulated thread. glibc exports the __libc_* entry points, which
// avoids the dlsym bootstrap problem. Not used in the ASan flavour (ASan owns malloc).
extern "C"
{
extern void* __libc_malloc(size_t);
extern void* __libc_calloc(size_t, size_t);
extern void* __libc_realloc(void*, size_t);
extern void __libc_free(void*);
extern void* __libc_memalign(size_t, size_t);

void* malloc(size_t n)
{
  sim::count_alloc(false);
  return __libc_malloc(n);
}
void* calloc(size_t a, size_t b)
{
  sim::count_alloc(false);
  return __libc_calloc(a, b);
}
void* realloc(void* p, size_t n)
{
  sim::count_alloc(false);
  return __libc_realloc(p, n);
}
void free(void* p) { __libc_free(p); }
void* memalign(size_t a, size_t n)
{
  sim::count_alloc(false);
  return __libc_memalign(a, n);
}
void* aligned_alloc(size_t a, size_t n)
{
  sim::count_alloc(false);
  return __libc_memalign(a, n);
}
int posix_memalign(void** out, size_t a, size_t n)
{
  sim::count_alloc(false);
  void* p = __libc_memalign(a, n);
  if (!p)
  {
    return ENOMEM;
  }
  *out = p;
  return 0;
}
void* mmap(void* addr, size_t len, int prot, int flags, int fd, off_t off)
{
  sim::count_alloc(true);
  return reinterpret_cast<void*>(::syscall(SYS_mmap, addr, len, prot, flags, fd, off));
}
}
#endif
