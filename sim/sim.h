// sim.h — interface of the deterministic simulator core (scheduler, virtual clock, fault points).
// Used by the SIM-SYS and SIM-COMP engines. Everything here is harness code; nothing in /repo
// includes it (the seams are the textual prelude and link-time interposition, see DESIGN.md 2.1).
#pragma once
#include <cstddef>
#include <cstdint>

// global-scope alias so that quill's `::syscall(SYS_gettid)` can be redirected textually
long sim_syscall_shim(long number, ...);

namespace sim
{
enum Kind : uint8_t
{
  K_LOAD = 1,
  K_STORE,
  K_RMW,
  K_FENCE,
  K_CLOCK,
  K_RDTSC,
  K_SLEEP,
  K_YIELD,
  K_MUTEX,
  K_CV_WAIT,
  K_CV_SIGNAL,
  K_CREATE,
  K_JOIN,
  K_EXIT,
  K_SINK,
  K_USER,
  K_FWRITE,
  K_KIND_MAX
};

enum Policy : int
{
  POLICY_RANDOM = 0,
  POLICY_PCT = 1
};

// A stall fault: thread `thread` is descheduled for `duration_ns` virtual nanoseconds at its
// `nth` (1-based) yield point of kind `kind` (kind 0 = any kind), counted from the moment the
// fault is armed.
struct Stall
{
  int thread;
  uint8_t kind;
  uint8_t prev_kind; // 0 = any; otherwise the thread's previous yield point must have been of this kind
  uint32_t nth;
  uint64_t duration_ns;
  bool fired;
  uint32_t seen;
};

struct Config
{
  uint64_t sched_seed = 1;
  int policy = POLICY_RANDOM;
  uint32_t den = 8;             // random walk: switch with probability 1/den
  uint32_t pct_depth = 2;       // PCT: number of priority change points
  uint64_t pct_horizon = 20000; // PCT: change points are drawn in [0, horizon) steps
  uint32_t delta_ns = 7;        // mean virtual ns added per yield point (>=1)
  uint64_t budget_random = 150000; // S1: steps under the random policy
  uint64_t budget_fair = 1500000;  // S2: steps under the fair policy (liveness verdicts only here)
  uint32_t spurious_cv_permille = 0; // F10: chance that a condvar wait returns spuriously
  uint64_t epoch_ns = 1700000000ull * 1000000000ull; // CLOCK_REALTIME at virtual time 0
};

struct Stats
{
  uint64_t steps = 0;
  uint64_t switches = 0;
  uint64_t preemptions = 0; // switches away from a thread that could have continued
  uint64_t time_jumps = 0;
  uint64_t stalls_fired = 0;
  uint64_t spurious_cv = 0;
  uint64_t fair_steps = 0;
  uint64_t kind_count[K_KIND_MAX] = {};
  uint64_t hash = 1469598103934665603ull;
  uint64_t now_ns = 0;
  int threads_created = 0;
};

// ---- lifecycle (called by the engine on the main thread) ------------------------------------
void clock_only_mode(bool on); // virtual clock answers and advances, scheduler inactive (pre-touch)
void start(Config const& cfg); // calling thread becomes simulated thread 0
void stop();                   // scheduler inactive again; other simulated threads stay parked
bool active();
Stats const& stats();
void add_stall(int thread, uint8_t kind, uint32_t nth, uint64_t duration_ns, uint8_t prev_kind = 0);
// arm a stall for `thread` relative to now
void arm_stall(int thread, uint8_t kind, uint32_t nth, uint64_t duration_ns, uint8_t prev_kind = 0);

// Called when the run cannot continue: reason is "deadlock", "stuck" (fair budget exhausted) or
// "oracle". The handler must not return (it writes the run record and _exit()s).
using AbandonHandler = void (*)(char const* reason);
void set_abandon_handler(AbandonHandler h);
[[noreturn]] void abandon(char const* reason);

// ---- inside a run ---------------------------------------------------------------------------
int self_id();        // simulated thread id, -1 for a thread the simulator does not own
uint64_t now_ns();    // virtual nanoseconds since start
uint64_t event_seq(); // global, strictly increasing event number (one per yield point / note)
uint64_t note(uint64_t tag, uint64_t value); // oracle-visible event: enters the hash, returns seq
void yield_point(uint8_t kind, uint64_t value);
bool in_fair_phase();
void force_fair_phase(); // "faults stop": switch to the fair schedule now
uint64_t rdtsc();
long syscall_shim(long number, ...);
uint32_t rnd(uint32_t n); // draw from the schedule stream (used by buggify-style points)
void hash_mix(uint64_t v);

// per-thread allocation counters (C11)
struct AllocCounters
{
  uint64_t mallocs = 0;
  uint64_t mmaps = 0;
};
AllocCounters alloc_counters();
// the first value the (virtual) wall clock returns to the calling thread after mark_clock_read(); 0 if it was not read
void mark_clock_read();
uint64_t first_clock_read(); // of the calling simulated thread
void count_alloc(bool is_mmap);

// fwrite fault (C10 F3): the next `n` fwrite calls made by simulated thread `thread` on `stream`
// write nothing and fail with ENOSPC
void arm_fwrite_fault(void* stream, uint32_t count);
uint64_t fwrite_faults_fired();

// VM support for process exit: after exit() was requested, user threads park at op boundaries
void park_forever();
bool exiting();

// thread exit bookkeeping for the engine
int thread_count();
bool thread_done(int id);
int thread_state(int id);
uint64_t thread_yields(int id);
} // namespace sim
