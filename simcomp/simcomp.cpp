// simcomp.cpp — SIM-COMP: single-threaded components whose nondeterminism is time and disk state.
//   C13  TimestampFormatter driven by a simulated clock (ticks, repeats, forward jumps, backward steps) vs libc
//   C14  RotatingFileSink (size rotation) over a scratch directory with restarts and foreign files vs a file-set model
//   C15  RotatingFileSink (time rotation) with start instants, gaps, zones, naming schemes vs a schedule model
// A case is an explicit (config, op list); one seed = one case; failures are ddmin-minimised and replayable.
#include "quill/backend/TimestampFormatter.h"
#include "quill/sinks/RotatingFileSink.h"

#include <algorithm>
#include <chrono>
#include <csignal>
#include <cstdio>
#include <cstdlib>
#include <cstring>
#include <ctime>
#include <dirent.h>
#include <fstream>
#include <functional>
#include <map>
#include <poll.h>
#include <set>
#include <sstream>
#include <string>
#include <sys/stat.h>
#include <sys/wait.h>
#include <unistd.h>
#include <unordered_set>
#include <vector>

namespace sc
{
struct Rng
{
  uint64_t s;
  explicit Rng(uint64_t seed = 1) : s(seed * 0x9E3779B97F4A7C15ull + 0xD1B54A32D192ED03ull) {}
  uint64_t next()
  {
    uint64_t z = (s += 0x9E3779B97F4A7C15ull);
    z = (z ^ (z >> 30)) * 0xBF58476D1CE4E5B9ull;
    z = (z ^ (z >> 27)) * 0x94D049BB133111EBull;
    return z ^ (z >> 31);
  }
  uint32_t below(uint32_t n) { return n <= 1 ? 0 : static_cast<uint32_t>(next() % n); }
  int64_t range(int64_t lo, int64_t hi) { return lo + static_cast<int64_t>(next() % static_cast<uint64_t>(hi - lo + 1)); }
  bool chance(uint32_t a, uint32_t b) { return below(b) < a; }
  template <class T>
  T pick(std::initializer_list<T> l)
  {
    auto it = l.begin();
    std::advance(it, below(static_cast<uint32_t>(l.size())));
    return *it;
  }
};
inline uint64_t splitmix(uint64_t a, uint64_t b, uint64_t c)
{
  Rng r(a ^ (b * 0x9E3779B97F4A7C15ull) ^ (c * 0xC2B2AE3D27D4EB4Full));
  r.next();
  return r.next();
}

enum OpK
{
  O_FORMAT = 0, // a = instant (ns since epoch)
  O_WRITE,      // a = size, b = timestamp ns
  O_RESTART,    // a = mode ('a' / 'w'), b = start instant ns
  O_FOREIGN,    // a = name index
  O_REMOVE_ACTIVE // the active file is taken away while no sink is open (a log shipper moved it): the next op is an 'a' restart
};
struct Op
{
  int k;
  int64_t a, b;
};
struct Case
{
  std::string prop;
  uint64_t seed = 0;
  std::map<std::string, int64_t> cfg;
  std::string pattern; // C13 pattern / C15 daily time "HH:MM"
  std::string tz;
  std::vector<Op> ops;

  std::string to_text() const
  {
    std::ostringstream o;
    o << "# quill-verif replay v1\nengine simcomp\nproperty " << prop << "\nseed " << seed << "\n";
    o << "tz " << (tz.empty() ? "-" : tz) << "\n";
    o << "pattern " << pattern << "\n";
    for (auto const& kv : cfg)
    {
      o << "cfg " << kv.first << " " << kv.second << "\n";
    }
    for (auto const& op : ops)
    {
      o << "op " << op.k << " " << op.a << " " << op.b << "\n";
    }
    return o.str();
  }
  static bool from_text(std::string const& t, Case& c)
  {
    std::istringstream in(t);
    std::string line;
    c = Case{};
    while (std::getline(in, line))
    {
      if (line.empty() || line[0] == '#')
      {
        continue;
      }
      std::istringstream ls(line);
      std::string w;
      ls >> w;
      if (w == "engine")
      {
        continue;
      }
      if (w == "property")
      {
        ls >> c.prop;
      }
      else if (w == "seed")
      {
        ls >> c.seed;
      }
      else if (w == "tz")
      {
        ls >> c.tz;
        if (c.tz == "-")
        {
          c.tz.clear();
        }
      }
      else if (w == "pattern")
      {
        std::getline(ls, c.pattern);
        if (!c.pattern.empty() && c.pattern[0] == ' ')
        {
          c.pattern.erase(0, 1);
        }
      }
      else if (w == "cfg")
      {
        std::string k;
        int64_t v;
        ls >> k >> v;
        c.cfg[k] = v;
      }
      else if (w == "op")
      {
        Op op{};
        ls >> op.k >> op.a >> op.b;
        c.ops.push_back(op);
      }
      else
      {
        return false;
      }
    }
    return !c.prop.empty();
  }
  int64_t get(std::string const& k, int64_t d = 0) const
  {
    auto it = cfg.find(k);
    return it == cfg.end() ? d : it->second;
  }
};

struct Verdict
{
  int kind = 0; // 0 ok, 1 violation, 2 inconclusive
  std::string tag, detail;
  std::map<std::string, std::string> fields;
  bool nontrivial = false;
  std::map<std::string, uint64_t> probes;
  uint64_t hash = 0;
};
inline Verdict viol(std::string tag, std::string detail, std::map<std::string, std::string> f = {})
{
  Verdict v;
  v.kind = 1;
  v.tag = std::move(tag);
  v.detail = std::move(detail);
  v.fields = std::move(f);
  return v;
}
inline void hmix(uint64_t& h, uint64_t v)
{
  h ^= v;
  h *= 1099511628211ull;
}

static char const* const ZONES[] = {"UTC",           "Europe/London",    "America/New_York",  "Asia/Kolkata",      "Australia/Adelaide",
                                   "Asia/Kathmandu", "America/St_Johns", "Pacific/Auckland",  "America/Sao_Paulo", "Europe/Berlin",
                                   "Asia/Tokyo",     "Australia/Lord_Howe"};
constexpr int NZONES = 12;

void set_tz(std::string const& tz)
{
  if (tz.empty())
  {
    setenv("TZ", "UTC", 1);
  }
  else
  {
    setenv("TZ", tz.c_str(), 1);
  }
  tzset();
  // glibc's mktime keeps a static guess of the UTC offset from its previous call and uses it to resolve local times that
  // occur twice: without this call the outcome of a case could depend on which cases the worker process ran before it
  // (and differ in the fresh process of the replay gate). One call on a fixed instant makes it a function of the case.
  time_t t0 = 0;
  tm x;
  localtime_r(&t0, &x);
  (void)mktime(&x);
}

// ================================================================================================ C13
Case gen_c13(uint64_t seed, int tier)
{
  Rng r(seed);
  Case c;
  c.prop = "C13";
  c.seed = seed;
  c.tz = ZONES[r.below(NZONES)];
  bool gmt = r.chance(1, 2);
  c.cfg["gmt"] = gmt;
  // pattern assembled from conversions the formatter accepts
  static char const* const conv[] = {"%H", "%M", "%S", "%I", "%k", "%l", "%p", "%Y", "%m", "%d", "%y", "%b", "%a", "%j", "%e",
                                     "%T", "%R", "%D", "%F", "%Z", "%z", "%C", "%u", "%h", "%B", "%A", "%n", "%t", "%r", "%c",
                                     // further plain conversions of libc's strftime (all change at midnight, %P at noon too)
                                     "%P", "%G", "%g", "%U", "%V", "%W", "%w", "%x"};
  static char const* const lit[] = {":", "-", " ", ".", "/", "T", "_", "", "", " at ", "|"};
  int n = static_cast<int>(r.range(1, 8));
  int frac_pos = r.chance(3, 4) ? static_cast<int>(r.below(static_cast<uint32_t>(n + 1))) : -1;
  std::string pat;
  bool use_s = r.chance(1, 10);
  bool process_utc = (c.tz == "UTC");
  for (int i = 0; i <= n; ++i)
  {
    if (i == frac_pos)
    {
      pat += r.pick<char const*>({"%Qms", "%Qus", "%Qns"});
      pat += lit[r.below(11)];
    }
    if (i < n)
    {
      std::string cv = conv[r.below(static_cast<uint32_t>(sizeof(conv) / sizeof(conv[0])))];
      if (use_s && r.chance(1, 3) && (!gmt || process_utc))
      {
        cv = "%s"; // only where libc's own %s is meaningful
      }
      pat += cv;
      pat += lit[r.below(11)];
    }
  }
  if (pat.empty())
  {
    pat = "%H:%M:%S";
  }
  c.pattern = pat;
  // invalid patterns: must be rejected
  if (r.chance(1, 40))
  {
    c.pattern = r.chance(1, 2) ? "%H:%M:%S.%Qms %Qus" : "%H %X %M";
    c.cfg["expect_reject"] = 1;
  }
  // clock history from 2001 to 2100
  // (%s is only in the property's domain for ten-digit epochs)
  int64_t const lo = (c.pattern.find("%s") != std::string::npos) ? 1000000000ll + 86400 : 978307200ll + 86400, hi = 4102444800ll - 86400 * 2;
  int64_t t = r.range(lo, hi);
  if (r.chance(1, 3))
  {
    // start just before an interesting boundary
    t = t - (t % 86400) + r.pick<int64_t>({0, 43200, 3600 * 2, 900, 86400 - 1}) - r.range(0, 3);
  }
  int64_t ns = static_cast<int64_t>(r.below(1000000000));
  int nops = static_cast<int>(r.range(3, tier ? 120 : 50));
  for (int i = 0; i < nops; ++i)
  {
    uint32_t k = r.below(100);
    if (k < 40)
    {
      ns += r.range(0, 999999999);
      t += ns / 1000000000;
      ns %= 1000000000;
      t += r.pick<int64_t>({0, 0, 1, 1, 2, 59, 60});
    }
    else if (k < 46)
    {
      // repeat
    }
    else if (k < 58)
    {
      // another instant within the same second, earlier or later (a clock stepped back by less than a second, statements of
      // two threads written in queue order): fractions with few significant digits, so that every digit position matters
      ns = r.chance(1, 2) ? static_cast<int64_t>(r.below(1000000000))
                          : r.pick<int64_t>({0, 1, 7, 42, 999, 1000, 5000, 999999, 1000000, 5000000, 70000000, 500000000, 999999999});
    }
    else if (k < 80)
    {
      // forward jump over second/minute/hour/noon/midnight/quarter-hour/day/DST-scale boundaries
      t += r.pick<int64_t>({61, 899, 900, 901, 3599, 3600, 3601, 43199, 43200, 43201, 86399, 86400, 86401, 7 * 86400, 90 * 86400, 183 * 86400});
      ns = static_cast<int64_t>(r.below(1000000000));
    }
    else
    {
      // backward step (NTP-style)
      t -= r.pick<int64_t>({1, 2, 30, 61, 900, 3600, 3601, 43200, 86400, 30 * 86400});
      ns = static_cast<int64_t>(r.below(1000000000));
    }
    if (t < lo)
    {
      t = lo + r.range(0, 100000);
    }
    if (t > hi)
    {
      t = hi - r.range(0, 100000);
    }
    c.ops.push_back(Op{O_FORMAT, t * 1000000000ll + ns, 0});
  }
  return c;
}

Verdict run_c13(Case const& c, std::string const&)
{
  Verdict v;
  set_tz(c.tz);
  bool gmt = c.get("gmt") != 0;
  std::unique_ptr<quill::detail::TimestampFormatter> tf;
  try
  {
    tf = std::make_unique<quill::detail::TimestampFormatter>(c.pattern, gmt ? quill::Timezone::GmtTime : quill::Timezone::LocalTime);
  }
  catch (quill::QuillError const&)
  {
    if (c.get("expect_reject"))
    {
      v.nontrivial = false;
      v.probes["invalid_patterns_rejected"] = 1;
      return v;
    }
    return viol("valid_pattern_rejected", "pattern '" + c.pattern + "'");
  }
  if (c.get("expect_reject"))
  {
    return viol("invalid_pattern_accepted", "pattern '" + c.pattern + "' (two fractional specifiers or %X) was not rejected");
  }
  // split at the fractional specifier
  std::string p1 = c.pattern, p2;
  int digits = 0;
  for (auto const& spec : {std::make_pair("%Qms", 3), std::make_pair("%Qus", 6), std::make_pair("%Qns", 9)})
  {
    size_t pos = c.pattern.find(spec.first);
    if (pos != std::string::npos)
    {
      p1 = c.pattern.substr(0, pos);
      p2 = c.pattern.substr(pos + strlen(spec.first));
      digits = spec.second;
    }
  }
  auto libc_fmt = [&](std::string const& pat, time_t t) -> std::string
  {
    if (pat.empty())
    {
      return {};
    }
    tm tmv;
    if (gmt)
    {
      gmtime_r(&t, &tmv);
    }
    else
    {
      localtime_r(&t, &tmv);
    }
    char buf[512];
    size_t n = strftime(buf, sizeof(buf), pat.c_str(), &tmv);
    return std::string(buf, n);
  };
  int64_t prev = 0;
  uint64_t back = 0, jumps = 0;
  for (size_t i = 0; i < c.ops.size(); ++i)
  {
    int64_t inst = c.ops[i].a;
    time_t secs = static_cast<time_t>(inst / 1000000000ll);
    int64_t frac = inst % 1000000000ll;
    std::string want = libc_fmt(p1, secs);
    if (digits)
    {
      char fb[16];
      int64_t fv = digits == 3 ? frac / 1000000 : (digits == 6 ? frac / 1000 : frac);
      snprintf(fb, sizeof(fb), "%0*ld", digits, static_cast<long>(fv));
      want += fb;
    }
    want += libc_fmt(p2, secs);
    std::string_view got = tf->format_timestamp(std::chrono::nanoseconds{inst});
    hmix(v.hash, std::hash<std::string>{}(want));
    if (std::string(got) != want)
    {
      return viol("rendered_time_differs_from_strftime",
                  "pattern '" + c.pattern + "' zone " + c.tz + (gmt ? " (GMT mode)" : " (local mode)") + " call " + std::to_string(i) +
                    " instant " + std::to_string(inst) + ": got '" + std::string(got) + "' want '" + want + "'",
                  {{"after_backward_step", (i > 0 && inst < prev) ? "1" : "0"}});
    }
    if (i > 0 && inst < prev)
    {
      ++back;
    }
    if (i > 0 && inst - prev > 60ll * 1000000000ll)
    {
      ++jumps;
    }
    prev = inst;
  }
  v.nontrivial = c.ops.size() >= 3;
  v.probes["format_calls"] = c.ops.size();
  v.probes["backward_steps"] = back;
  v.probes["forward_jumps_over_a_minute"] = jumps;
  v.probes["invalid_patterns_rejected"] = 0;
  return v;
}

// ================================================================================================ C14 / C15
std::string stmt_text(size_t index, size_t size)
{
  char head[32];
  snprintf(head, sizeof(head), "S%06zu:", index);
  std::string s = head;
  if (size < s.size() + 1)
  {
    size = s.size() + 1;
  }
  s.append(size - s.size() - 1, static_cast<char>('a' + index % 26));
  s.push_back('\n');
  return s;
}

std::map<std::string, std::string> read_dir(std::string const& dir)
{
  std::map<std::string, std::string> out;
  DIR* d = opendir(dir.c_str());
  if (!d)
  {
    return out;
  }
  while (dirent* e = readdir(d))
  {
    std::string n = e->d_name;
    if (n == "." || n == "..")
    {
      continue;
    }
    std::ifstream f(dir + "/" + n, std::ios::binary);
    std::stringstream ss;
    ss << f.rdbuf();
    out[n] = ss.str();
  }
  closedir(d);
  return out;
}

static char const* const FOREIGN[] = {"other.log", "base.txt", "basex.1.log", "base.log.bak", "mybase.1.log", "base.1.txt", "base"};
constexpr int NFOREIGN = 7;

std::string fmt_time(int64_t ns, bool gmt, char const* f)
{
  time_t t = static_cast<time_t>(ns / 1000000000ll);
  tm tmv;
  if (gmt)
  {
    gmtime_r(&t, &tmv);
  }
  else
  {
    localtime_r(&t, &tmv);
  }
  char buf[64];
  strftime(buf, sizeof(buf), f, &tmv);
  return buf;
}

// parse a file name of the sink's family: base[.suffix][.index].log -> (suffix, index); false if not of the family
bool parse_name(std::string const& n, int naming, std::string& suffix, uint32_t& index, std::string const& ext = ".log")
{
  suffix.clear();
  index = 0;
  if (n == "base" + ext)
  {
    return true;
  }
  if (n.size() < 6 + ext.size() || n.compare(0, 5, "base.") != 0 || n.compare(n.size() - ext.size(), ext.size(), ext) != 0)
  {
    return false;
  }
  std::string mid = n.substr(5, n.size() - 5 - ext.size()); // between "base." and the extension
  std::vector<std::string> parts;
  size_t pos = 0;
  while (true)
  {
    size_t q = mid.find('.', pos);
    if (q == std::string::npos)
    {
      parts.push_back(mid.substr(pos));
      break;
    }
    parts.push_back(mid.substr(pos, q - pos));
    pos = q + 1;
  }
  auto all_digits = [](std::string const& s) { return !s.empty() && std::all_of(s.begin(), s.end(), [](char ch) { return ch >= '0' && ch <= '9'; }); };
  if (naming == 0)
  {
    if (parts.size() != 1 || !all_digits(parts[0]))
    {
      return false;
    }
    index = static_cast<uint32_t>(std::stoul(parts[0]));
    return true;
  }
  size_t want_len = naming == 1 ? 8 : 15;
  if (parts.empty() || parts[0].size() != want_len)
  {
    return false;
  }
  suffix = parts[0];
  if (parts.size() == 2 && all_digits(parts[1]))
  {
    index = static_cast<uint32_t>(std::stoul(parts[1]));
    return true;
  }
  return parts.size() == 1;
}

// the instants in `year` at which the UTC offset of the process zone changes (exact second of the change)
static std::vector<int64_t> dst_transitions(int64_t year)
{
  std::vector<int64_t> out;
  tm b{};
  b.tm_year = static_cast<int>(year - 1900);
  b.tm_mday = 1;
  int64_t t0 = static_cast<int64_t>(timegm(&b));
  auto off = [](int64_t t)
  {
    time_t tt = static_cast<time_t>(t);
    tm l;
    localtime_r(&tt, &l);
    return static_cast<int64_t>(l.tm_gmtoff);
  };
  int64_t prev = off(t0);
  for (int64_t t = t0 + 21600; t < t0 + 366 * 86400; t += 21600)
  {
    int64_t cur = off(t);
    if (cur != prev)
    {
      int64_t lo = t - 21600, hi = t; // off(lo) == prev, off(hi) == cur
      while (hi - lo > 1)
      {
        int64_t mid = lo + (hi - lo) / 2;
        (off(mid) == prev ? lo : hi) = mid;
      }
      out.push_back(hi);
      prev = cur;
    }
  }
  return out;
}

Case gen_rot(uint64_t seed, int tier, bool time_rotation)
{
  Rng r(seed);
  Case c;
  c.prop = time_rotation ? "C15" : "C14";
  c.seed = seed;
  c.tz = ZONES[r.below(NZONES)];
  bool gmt = r.chance(1, 2);
  c.cfg["gmt"] = gmt;
  c.cfg["naming"] = r.below(3);
  c.cfg["backups"] = r.pick<int64_t>({-1, -1, 0, 1, 2, 3, 5});
  c.cfg["overwrite"] = r.chance(3, 4) ? 1 : 0;
  c.cfg["remove_old"] = r.chance(1, 2) ? 1 : 0;
  int64_t limit = r.pick<int64_t>({512, 600, 1024, 2048});
  {
    Rng r2(seed ^ 0xf5a1);
    c.cfg["fsync"] = r2.pick<int64_t>({0, 0, 0, 1, 2});
    c.cfg["notifier"] = r2.chance(1, 4) ? 1 : 0;
    c.cfg["layout"] = r2.chance(1, 5) ? 1 : 0;
    if (c.cfg["layout"] == 1)
    {
      // An extension-less name is only exercised with index naming and within one run: quill's start-up recovery and 'w'
      // clean-up match files by extension and its date naming treats the date as the extension of such a name — outside
      // what C14 / C15 state (they do not speak about the shape of the file name), see DESIGN.md section 11.
      c.cfg["naming"] = 0;
    }
  }
  // start instant: a "safe" day in January or July (no DST change within the window), 2001..2100
  int64_t year = r.range(2001, 2099);
  tm base{};
  base.tm_year = static_cast<int>(year - 1900);
  base.tm_mon = r.chance(1, 2) ? 0 : 6;
  base.tm_mday = static_cast<int>(r.range(8, 14));
  int64_t day0 = static_cast<int64_t>(timegm(&base));
  int64_t start = day0 + r.range(0, 86399);
  c.cfg["start"] = start;
  int64_t ts = start * 1000000000ll + r.range(0, 999999999);
  int nops = static_cast<int>(r.range(3, tier ? 70 : 35));
  if (!time_rotation)
  {
    c.cfg["limit"] = limit;
    c.cfg["freq"] = 0;
    int64_t cur = 0;
    bool any_w = false;
    for (int i = 0; i < nops; ++i)
    {
      uint32_t k = r.below(100);
      if (k < 82)
      {
        int64_t size;
        uint32_t z = r.below(100);
        if (z < 40)
        {
          size = r.range(10, 80);
        }
        else if (z < 60)
        {
          size = limit / 3 + r.range(0, 20);
        }
        else if (z < 72)
        {
          size = limit - r.range(0, 12);
        }
        else if (z < 84)
        {
          size = (limit - cur > 9) ? limit - cur : r.range(10, 40); // exactly fills the file
        }
        else if (z < 92)
        {
          size = limit;
        }
        else
        {
          size = limit + r.range(1, 80);
        }
        ts += r.pick<int64_t>({0, 1, 1000000000ll, 60000000000ll, 3600000000000ll, 3600000000000ll * 7, 86400000000000ll});
        c.ops.push_back(Op{O_WRITE, size, ts});
        cur = (cur + size > limit) ? size : cur + size;
      }
      else if (k < 93)
      {
        ts += r.pick<int64_t>({0, 1000000000ll, 3600000000000ll, 86400000000000ll, 86400000000000ll * 3});
        bool w = r.chance(1, 6) && c.cfg["remove_old"] == 1 && c.cfg["naming"] == 0;
        any_w |= w;
        if (!w && c.cfg["naming"] == 0 && Rng(seed ^ static_cast<uint64_t>(i * 977 + 5)).chance(1, 6))
        {
          c.ops.push_back(Op{O_REMOVE_ACTIVE, 0, 0});
        }
        c.ops.push_back(Op{O_RESTART, w ? 'w' : 'a', ts});
        if (w)
        {
          cur = 0;
        }
      }
      else
      {
        c.ops.push_back(Op{O_FOREIGN, static_cast<int64_t>(r.below(NFOREIGN)), 0});
      }
    }
    (void)any_w;
  }
  else
  {
    int64_t freq = r.pick<int64_t>({1, 1, 2, 3}); // 1 daily, 2 hourly, 3 minutely
    c.cfg["freq"] = freq;
    c.cfg["interval"] = r.pick<int64_t>({1, 1, 2, 3, 5});
    char hm[8];
    snprintf(hm, sizeof(hm), "%02d:%02d", static_cast<int>(r.pick<int64_t>({0, 0, 3, 12, 23, r.range(0, 23)})),
             static_cast<int>(r.pick<int64_t>({0, 0, 30, 59, r.range(0, 59)})));
    if (!gmt && r.chance(1, 3))
    {
      // start a few hours to three days before a change of the zone's UTC offset; for daily rotation the configured time
      // often lies in or next to the hour that is skipped or repeated
      set_tz(c.tz);
      std::vector<int64_t> tr = dst_transitions(year);
      if (!tr.empty())
      {
        int64_t const T = tr[r.below(static_cast<uint32_t>(tr.size()))];
        start = T - r.range(3600, 3 * 86400);
        c.cfg["start"] = start;
        c.cfg["near_offset_change"] = 1;
        ts = start * 1000000000ll + r.range(0, 999999999);
        if (freq == 1 && r.chance(2, 3))
        {
          time_t before = static_cast<time_t>(T - 1);
          tm l;
          localtime_r(&before, &l);
          snprintf(hm, sizeof(hm), "%02d:%02d", static_cast<int>((l.tm_hour + r.pick<int64_t>({0, 1, 1})) % 24),
                   static_cast<int>(r.pick<int64_t>({0, 1, 30, 59})));
        }
      }
    }
    c.pattern = hm;
    c.cfg["limit"] = r.chance(1, 3) ? limit : 0;
    c.cfg["overwrite"] = 1;
    int64_t period = freq == 1 ? 86400 : (freq == 2 ? 3600 : 60);
    for (int i = 0; i < nops; ++i)
    {
      uint32_t k = r.below(100);
      if (k < 90)
      {
        uint32_t z = r.below(100);
        int64_t step;
        if (z < 35)
        {
          step = r.range(0, period * 1000000000ll / 6); // dense
        }
        else if (z < 55)
        {
          step = period * 1000000000ll + r.range(-2, 2); // exactly one period, +-ns
        }
        else if (z < 75)
        {
          // land exactly on / just before / just after a period boundary of the wall clock
          int64_t sec = ts / 1000000000ll;
          int64_t nextb = (sec / period + 1) * period;
          step = (nextb * 1000000000ll - ts) + r.pick<int64_t>({-1, 0, 0, 1, 999999999});
          if (step < 0)
          {
            step = 0;
          }
        }
        else
        {
          step = period * 1000000000ll * r.range(2, 9) + r.range(0, period * 1000000000ll); // a gap of many periods
        }
        ts += step;
        c.ops.push_back(Op{O_WRITE, c.cfg["limit"] ? r.pick<int64_t>({20, 60, limit / 2, limit - 5}) : r.range(12, 60), ts});
      }
      else if (k < 96)
      {
        ts += r.pick<int64_t>({0, 1000000000ll, period * 1000000000ll / 2, period * 1000000000ll * 3});
        c.ops.push_back(Op{O_RESTART, 'a', ts});
      }
      else
      {
        c.ops.push_back(Op{O_FOREIGN, static_cast<int64_t>(r.below(NFOREIGN)), 0});
      }
    }
  }
  if (c.cfg["layout"] == 1)
  {
    std::vector<Op> kept;
    for (auto const& op : c.ops)
    {
      if (op.k != O_RESTART && op.k != O_REMOVE_ACTIVE)
      {
        kept.push_back(op);
      }
    }
    c.ops = kept;
  }
  return c;
}

struct RotModel
{
  struct St
  {
    size_t index;
    size_t size;
    int64_t ts;
    int instance; // sink instance (restart count) that wrote it
    int epoch;    // incremented by a 'w' restart: earlier statements are no longer demanded
  };
  std::vector<St> st;
};

// The wall-clock rotation points of a daily schedule in (a, b]: 1 = a point certainly lies in between, 0 = certainly none,
// -1 = only a point whose instant is a matter of interpretation does. On the day daylight saving time ends HH:MM can occur
// twice (mktime with tm_isdst = -1 may return either occurrence — glibc's choice even depends on earlier calls); on the day
// it starts HH:MM may not exist at all (mktime moves it, forwards or backwards). Either reading is accepted for those days.
int daily_point_between(int64_t a_ns, int64_t b_ns, bool gmt, int hh, int mm)
{
  if (b_ns <= a_ns)
  {
    return 0;
  }
  int64_t a = a_ns / 1000000000ll, b = b_ns / 1000000000ll;
  auto inside = [&](int64_t pt) { return pt * 1000000000ll > a_ns && pt * 1000000000ll <= b_ns; };
  bool optional_inside = false;
  // candidate days: from the day of a - 1 to the day of b + 1
  // (half-day steps: with 24 h steps a probe taken late in the evening skips the calendar day of a DST change)
  for (int64_t day = a - 86400 * 2; day <= b + 86400 * 2; day += 43200)
  {
    time_t t = static_cast<time_t>(day);
    tm base;
    if (gmt)
    {
      gmtime_r(&t, &base);
      base.tm_hour = hh;
      base.tm_min = mm;
      base.tm_sec = 0;
      if (inside(static_cast<int64_t>(timegm(&base))))
      {
        return 1;
      }
      continue;
    }
    localtime_r(&t, &base);
    // every instant mktime may name for HH:MM of this calendar day, and whether it really reads HH:MM on that day
    std::vector<int64_t> real, moved;
    for (int isdst : {-1, 0, 1})
    {
      tm q = base;
      q.tm_hour = hh;
      q.tm_min = mm;
      q.tm_sec = 0;
      q.tm_isdst = isdst;
      time_t r = mktime(&q);
      if (r == static_cast<time_t>(-1))
      {
        continue;
      }
      tm back;
      localtime_r(&r, &back);
      bool same = back.tm_year == base.tm_year && back.tm_mon == base.tm_mon && back.tm_mday == base.tm_mday && back.tm_hour == hh &&
        back.tm_min == mm && back.tm_sec == 0;
      auto& into = same ? real : moved;
      if (std::find(into.begin(), into.end(), static_cast<int64_t>(r)) == into.end())
      {
        into.push_back(static_cast<int64_t>(r));
      }
    }
    if (real.size() == 1)
    {
      if (inside(real[0]))
      {
        return 1;
      }
    }
    else if (real.size() >= 2)
    {
      size_t n_in = 0;
      for (int64_t r : real)
      {
        n_in += inside(r) ? 1 : 0;
      }
      if (n_in == real.size())
      {
        return 1;
      }
      optional_inside = optional_inside || n_in > 0;
    }
    else
    {
      for (int64_t r : moved)
      {
        optional_inside = optional_inside || inside(r);
      }
    }
  }
  return optional_inside ? -1 : 0;
}

Verdict run_rot(Case const& c, std::string const& base_dir)
{
  Verdict v;
  set_tz(c.tz);
  bool const gmt = c.get("gmt") != 0;
  int const naming = static_cast<int>(c.get("naming"));
  int64_t const backups = c.get("backups", -1);
  bool const overwrite = c.get("overwrite", 1) != 0;
  int64_t const limit = c.get("limit", 0);
  int const freq = static_cast<int>(c.get("freq", 0));
  int64_t const interval = c.get("interval", 1);
  // layout 1: an extension-less file inside a directory whose name contains a dot ("…/rot.d/base")
  int const layout = static_cast<int>(c.get("layout", 0));
  std::string const ext = layout ? "" : ".log";
  std::string const active_name = "base" + ext;
  std::string const dir = layout ? base_dir + "/rot.d" : base_dir;
  (void)!system(("rm -rf '" + base_dir + "' && mkdir -p '" + dir + "'").c_str());
  std::string const path = dir + "/" + active_name;

  auto make_cfg = [&](char mode)
  {
    quill::RotatingFileSinkConfig cfg;
    cfg.set_open_mode(mode);
    cfg.set_timezone(gmt ? quill::Timezone::GmtTime : quill::Timezone::LocalTime);
    if (c.get("fsync", 0))
    {
      // fsync after flushing, at most every `minimum interval` of real time (2: an interval that never elapses within a case)
      cfg.set_fsync_enabled(true);
      cfg.set_minimum_fsync_interval(std::chrono::milliseconds{c.get("fsync", 0) == 2 ? 600000 : 0});
    }
    if (limit)
    {
      cfg.set_rotation_max_file_size(static_cast<size_t>(limit));
    }
    if (backups >= 0)
    {
      cfg.set_max_backup_files(static_cast<uint32_t>(backups));
    }
    cfg.set_overwrite_rolled_files(overwrite);
    cfg.set_remove_old_files(c.get("remove_old", 1) != 0);
    cfg.set_rotation_naming_scheme(naming == 0 ? quill::RotatingFileSinkConfig::RotationNamingScheme::Index
                                               : (naming == 1 ? quill::RotatingFileSinkConfig::RotationNamingScheme::Date
                                                              : quill::RotatingFileSinkConfig::RotationNamingScheme::DateAndTime));
    if (freq == 1)
    {
      cfg.set_rotation_time_daily(c.pattern);
    }
    else if (freq == 2)
    {
      cfg.set_rotation_frequency_and_interval('H', static_cast<uint32_t>(interval));
    }
    else if (freq == 3)
    {
      cfg.set_rotation_frequency_and_interval('M', static_cast<uint32_t>(interval));
    }
    return cfg;
  };
  int64_t start_ns = c.get("start") * 1000000000ll;
  std::vector<int64_t> instance_start{start_ns};
  std::unique_ptr<quill::RotatingFileSink> sink;
  auto open_sink = [&](char mode, int64_t st)
  {
    sink.reset();
    quill::FileEventNotifier fen;
    if (c.get("notifier", 0))
    {
      // user callbacks on file events; before_write hands the statement through unchanged
      fen.before_open = [](quill::fs::path const&) {};
      fen.after_open = [](quill::fs::path const&, FILE*) {};
      fen.before_close = [](quill::fs::path const&, FILE*) {};
      fen.after_close = [](quill::fs::path const&) {};
      fen.before_write = [](std::string_view message) { return std::string{message}; };
    }
    sink = std::make_unique<quill::RotatingFileSink>(
      path, make_cfg(mode), fen,
      std::chrono::system_clock::time_point{std::chrono::duration_cast<std::chrono::system_clock::duration>(std::chrono::nanoseconds{st})});
  };
  try
  {
    open_sink('w', start_ns);
  }
  catch (std::exception const& e)
  {
    return viol("sink_construction_failed", e.what());
  }
  RotModel model;
  std::map<std::string, std::string> foreign; // name -> content
  int epoch = 0;
  uint64_t restarts = 0, writes = 0, restarts_w = 0, dst_ambiguous_pairs = 0, name_order_undefined = 0, active_removed = 0;
  bool rotation_may_have_stopped = false;
  // time rotation schedule (reading A: fixed grid, reading B: k periods after the previous trigger) for hourly/minutely
  int hh = 0, mm = 0;
  if (freq == 1)
  {
    hh = std::atoi(c.pattern.substr(0, 2).c_str());
    mm = std::atoi(c.pattern.substr(3, 2).c_str());
  }
  int64_t const period_ns = (freq == 2 ? 3600ll : 60ll) * 1000000000ll;
  // The first hourly / minutely point strictly after a start instant, in every defensible reading: (1) the next instant at
  // which the wall clock shows a full hour / minute as time flows (scanned in UTC quarter hours — exact also across a change
  // of the UTC offset); (2) mktime of "next full hour" with tm_isdst = -1; (3) the same with the tm_isdst that was in effect
  // at the start (what quill does). They coincide except in the hour before a change of the offset; there a statement pair
  // is demanded to be separated (or to share a file) only if every reading says so.
  auto first_points_after = [&](int64_t st_ns) -> std::vector<int64_t>
  {
    std::vector<int64_t> out;
    auto add = [&out](int64_t v)
    {
      if (std::find(out.begin(), out.end(), v) == out.end())
      {
        out.push_back(v);
      }
    };
    time_t t = static_cast<time_t>(st_ns / 1000000000ll);
    int64_t const step = freq == 3 ? 60 : 900;
    for (int64_t c = (static_cast<int64_t>(t) / step + 1) * step; c <= static_cast<int64_t>(t) + 3 * 3600; c += step)
    {
      time_t ct = static_cast<time_t>(c);
      tm l;
      if (gmt)
      {
        gmtime_r(&ct, &l);
      }
      else
      {
        localtime_r(&ct, &l);
      }
      if (l.tm_sec == 0 && (freq == 3 || l.tm_min == 0))
      {
        add(c * 1000000000ll);
        break;
      }
    }
    for (int mode = 0; mode < 2; ++mode)
    {
      tm tmv;
      if (gmt)
      {
        gmtime_r(&t, &tmv);
      }
      else
      {
        localtime_r(&t, &tmv);
      }
      if (freq == 3)
      {
        tmv.tm_min += 1;
        tmv.tm_sec = 0;
      }
      else
      {
        tmv.tm_hour += 1;
        tmv.tm_min = 0;
        tmv.tm_sec = 0;
      }
      if (mode == 0)
      {
        tmv.tm_isdst = -1;
      }
      add(static_cast<int64_t>(gmt ? timegm(&tmv) : mktime(&tmv)) * 1000000000ll);
    }
    return out;
  };
  struct Grid
  {
    int64_t first, nextB;
  };
  std::vector<Grid> grids;
  auto anchor_grids = [&](int64_t st_ns)
  {
    grids.clear();
    for (int64_t f : first_points_after(st_ns))
    {
      grids.push_back(Grid{f, f});
    }
  };
  if (freq >= 2)
  {
    anchor_grids(start_ns);
  }
  // per statement: boundary demands relative to the previous statement written by the same instance chain
  struct Demand
  {
    int must; // 1 separate from previous, 0 share with previous, -1 either
  };
  std::vector<Demand> demands;

  auto check_dir = [&](size_t upto_op) -> Verdict
  {
    if (sink)
    {
      sink->flush_sink();
    }
    auto files = read_dir(dir);
    // foreign files untouched
    for (auto const& kv : foreign)
    {
      auto it = files.find(kv.first);
      if (it == files.end() || it->second != kv.second)
      {
        return viol("foreign_file_touched", "unrelated file '" + kv.first + "' was " + (it == files.end() ? "removed" : "modified"));
      }
    }
    // collect family files in oldest -> newest order
    struct F
    {
      std::string name, suffix;
      uint32_t index;
      bool active;
    };
    std::vector<F> fam;
    for (auto const& kv : files)
    {
      if (foreign.count(kv.first))
      {
        continue;
      }
      std::string suf;
      uint32_t idx;
      if (!parse_name(kv.first, naming, suf, idx, ext))
      {
        return viol("unexpected_file_in_directory", "file '" + kv.first + "' does not follow the naming scheme");
      }
      fam.push_back(F{kv.first, suf, idx, kv.first == active_name});
    }
    std::sort(fam.begin(), fam.end(),
              [](F const& a, F const& b)
              {
                if (a.active != b.active)
                {
                  return !a.active; // the active file is the newest
                }
                if (a.suffix != b.suffix)
                {
                  return a.suffix < b.suffix; // earlier date is older
                }
                return a.index > b.index; // larger index is older
              });
    // statements in file order
    std::vector<size_t> seq;
    std::map<size_t, std::string> where;
    size_t rotated = 0;
    for (auto const& f : fam)
    {
      if (!f.active)
      {
        ++rotated;
      }
      std::string const& content = files[f.name];
      size_t pos = 0, count = 0;
      while (pos < content.size())
      {
        size_t nl = content.find('\n', pos);
        if (nl == std::string::npos)
        {
          return viol("torn_statement", "file '" + f.name + "' ends with a partial statement");
        }
        std::string line = content.substr(pos, nl - pos + 1);
        pos = nl + 1;
        if (line.size() < 9 || line[0] != 'S' || line[7] != ':')
        {
          return viol("torn_statement", "file '" + f.name + "' holds a fragment: '" + line.substr(0, 40) + "'");
        }
        size_t idx = static_cast<size_t>(std::atoll(line.c_str() + 1));
        if (idx >= model.st.size() || stmt_text(idx, model.st[idx].size) != line)
        {
          return viol("torn_statement", "file '" + f.name + "' holds a damaged statement '" + line.substr(0, 40) + "'");
        }
        if (model.st[idx].epoch != epoch)
        {
          continue; // left over from before a 'w' restart: not demanded, not judged
        }
        if (where.count(idx))
        {
          return viol("statement_in_two_files", "statement " + std::to_string(idx) + " is in '" + where[idx] + "' and '" + f.name + "'");
        }
        where[idx] = f.name;
        seq.push_back(idx);
        ++count;
      }
      // (with overwriting disabled rotation stops once the backup count is reached and the active file legitimately
      // grows; after a restart that file can become a rotated one, so no file is judged in that configuration)
      if (limit && content.size() > static_cast<size_t>(limit) && count > 1 && !rotation_may_have_stopped)
      {
        return viol("file_exceeds_size_limit", "file '" + f.name + "' has " + std::to_string(content.size()) + " bytes (limit " +
                                                 std::to_string(limit) + ") and holds " + std::to_string(count) + " statements",
                    {{"active_file", f.active ? "1" : "0"}});
      }
    }
    for (size_t i = 1; i < seq.size(); ++i)
    {
      if (seq[i] <= seq[i - 1])
      {
        if (!gmt && naming >= 1 && seq[i] < model.st.size() && seq[i - 1] < model.st.size())
        {
          // Names built from LOCAL date / time repeat when the clock is set back: a file opened at 02:06 (before the change)
          // and one opened at 02:00 (after it) sort the wrong way round, and nothing in a local-time name can tell them apart.
          // "As the naming scheme orders them" is undefined for such a pair: not judged.
          int64_t lo = std::min(model.st[seq[i]].ts, model.st[seq[i - 1]].ts) / 1000000000ll - 7200;
          int64_t hi = std::max(model.st[seq[i]].ts, model.st[seq[i - 1]].ts) / 1000000000ll + 7200;
          bool set_back = false;
          if (hi - lo < 40 * 86400)
          {
            auto off = [](int64_t t)
            {
              time_t tt = static_cast<time_t>(t);
              tm l;
              localtime_r(&tt, &l);
              return static_cast<int64_t>(l.tm_gmtoff);
            };
            int64_t prev = off(lo);
            for (int64_t t = lo + 900; t <= hi && !set_back; t += 900)
            {
              int64_t cur = off(t);
              set_back = cur < prev;
              prev = cur;
            }
          }
          if (set_back)
          {
            ++name_order_undefined;
            continue;
          }
        }
        return viol("statements_out_of_order_across_files",
                    "reading the files oldest to newest gives statement " + std::to_string(seq[i - 1]) + " ('" + where[seq[i - 1]] +
                      "') before " + std::to_string(seq[i]) + " ('" + where[seq[i]] + "')",
                    {{"naming", std::to_string(naming)}, {"restarts", restarts ? "1" : "0"}});
      }
    }
    // the newest statement is never lost; with nothing deliberately deleted, none is
    size_t expected_present = 0;
    for (auto const& s : model.st)
    {
      if (s.epoch == epoch)
      {
        ++expected_present;
      }
    }
    bool nothing_deleted = !overwrite || backups < 0;
    if (nothing_deleted && seq.size() != expected_present)
    {
      // characterise: did a restarted instance open its file in the same (naming-scheme) time unit as an earlier file?
      bool same_unit = false;
      if (naming != 0)
      {
        char const* fm = naming == 1 ? "%Y%m%d" : "%Y%m%d_%H%M%S";
        for (size_t k = 1; k < instance_start.size(); ++k)
        {
          std::string rs = fmt_time(instance_start[k], gmt, fm);
          for (auto const& st : model.st)
          {
            if (st.ts <= instance_start[k] && fmt_time(st.ts, gmt, fm) == rs)
            {
              same_unit = true;
            }
          }
          for (size_t j = 0; j < k; ++j)
          {
            if (fmt_time(instance_start[j], gmt, fm) == rs)
            {
              same_unit = true;
            }
          }
        }
      }
      return viol("statement_lost", std::to_string(expected_present) + " statements written since the last clean start but only " +
                                      std::to_string(seq.size()) + " found although no file may be deleted",
                  {{"naming", naming == 0 ? "index" : (naming == 1 ? "date" : "date_and_time")}, {"after_append_restart", restarts ? "1" : "0"},
                   {"restart_in_same_time_unit_as_an_earlier_file_opening", same_unit ? "1" : "0"}});
    }
    if (!seq.empty() && expected_present && seq.back() != model.st.back().index && model.st.back().epoch == epoch)
    {
      return viol("statement_lost", "the most recent statement " + std::to_string(model.st.back().index) + " is in no file");
    }
    if (backups >= 0 && rotated > static_cast<size_t>(backups) && restarts_w == 0)
    {
      return viol("more_rotated_files_than_max_backup_files",
                  std::to_string(rotated) + " rotated files are kept but max_backup_files is " + std::to_string(backups),
                  {{"naming", naming == 0 ? "index" : (naming == 1 ? "date" : "date_and_time")},
                   {"after_append_restart", restarts ? "1" : "0"}});
    }
    // time rotation: which statements share a file
    if (freq)
    {
      for (size_t i = 1; i < seq.size(); ++i)
      {
        size_t a = seq[i - 1], b = seq[i];
        if (b != a + 1 || b >= demands.size())
        {
          continue;
        }
        bool same = where[a] == where[b];
        if (demands[b].must == 1 && same)
        {
          return viol("statement_appended_to_the_file_open_before_a_rotation_point",
                      "statements " + std::to_string(a) + " (ts " + std::to_string(model.st[a].ts) + ") and " + std::to_string(b) +
                        " (ts " + std::to_string(model.st[b].ts) + ") are both in '" + where[a] + "' although a scheduled rotation point lies between them",
                      {{"frequency", freq == 1 ? "daily" : (freq == 2 ? "hourly" : "minutely")}});
        }
        bool size_rotation_justified = false;
        if (demands[b].must == 0 && !same && limit)
        {
          // a size rotation is justified only if b did not fit behind what a's file held up to a
          size_t filled = 0;
          for (size_t idx : seq)
          {
            if (idx <= a && where[idx] == where[a])
            {
              filled += model.st[idx].size;
            }
          }
          size_rotation_justified = filled + model.st[b].size > static_cast<size_t>(limit);
        }
        if (demands[b].must == 0 && !same && !size_rotation_justified)
        {
          return viol("statements_separated_without_a_rotation_point",
                      "statements " + std::to_string(a) + " and " + std::to_string(b) + " are in different files ('" + where[a] + "', '" +
                        where[b] + "') although no rotation point lies between them",
                      {{"frequency", freq == 1 ? "daily" : (freq == 2 ? "hourly" : "minutely")}});
        }
      }
      // rotated files are named after the moment they were opened
      if (naming != 0)
      {
        std::map<std::string, size_t> first_in;
        for (size_t idx : seq)
        {
          if (!first_in.count(where[idx]))
          {
            first_in[where[idx]] = idx;
          }
        }
        for (auto const& f : fam)
        {
          if (f.active || !first_in.count(f.name))
          {
            continue;
          }
          char const* fm = naming == 1 ? "%Y%m%d" : "%Y%m%d_%H%M%S";
          size_t fi = first_in[f.name];
          std::set<std::string> ok{fmt_time(model.st[fi].ts, gmt, fm)};
          for (int64_t is : instance_start)
          {
            ok.insert(fmt_time(is, gmt, fm));
          }
          if (!ok.count(f.suffix))
          {
            return viol("rotated_file_not_named_after_its_opening_time",
                        "file '" + f.name + "' whose first statement has ts " + std::to_string(model.st[fi].ts) + " (" +
                          fmt_time(model.st[fi].ts, gmt, fm) + ")");
          }
        }
      }
    }
    (void)upto_op;
    return Verdict{};
  };

  int64_t prev_ts = -1;
  bool prev_valid = false;
  for (size_t oi = 0; oi < c.ops.size(); ++oi)
  {
    Op const& op = c.ops[oi];
    hmix(v.hash, static_cast<uint64_t>(op.k * 1315423911ll + op.a * 31 + op.b));
    try
    {
      if (op.k == O_WRITE)
      {
        size_t idx = model.st.size();
        std::string text = stmt_text(idx, static_cast<size_t>(op.a));
        model.st.push_back(RotModel::St{idx, static_cast<size_t>(op.a), op.b, static_cast<int>(instance_start.size()) - 1, epoch});
        // demand relative to the previous statement
        Demand d{-1};
        if (freq && prev_valid)
        {
          if (freq == 1)
          {
            d.must = daily_point_between(prev_ts, op.b, gmt, hh, mm);
            if (d.must < 0)
            {
              ++dst_ambiguous_pairs;
            }
          }
          else
          {
            // reading A: grid points first + n*k*period ; reading B: trigger + k*period — for every reading of "first"
            int64_t kp = interval * period_ns;
            bool all_sep = true, none_sep = true;
            for (Grid const& g : grids)
            {
              bool a_sep = false;
              if (op.b >= g.first)
              {
                int64_t n_prev = prev_ts >= g.first ? (prev_ts - g.first) / kp : -1;
                int64_t n_cur = (op.b - g.first) / kp;
                a_sep = n_cur > n_prev;
              }
              bool b_sep = op.b >= g.nextB;
              all_sep = all_sep && a_sep && b_sep;
              none_sep = none_sep && !a_sep && !b_sep;
            }
            d.must = all_sep ? 1 : (none_sep ? 0 : -1);
            if (grids.size() > 1 && d.must < 0)
            {
              ++dst_ambiguous_pairs;
            }
          }
        }
        if (freq >= 2)
        {
          for (Grid& g : grids)
          {
            if (op.b >= g.nextB)
            {
              g.nextB = op.b + interval * period_ns;
            }
          }
        }
        demands.resize(idx + 1, Demand{-1});
        demands[idx] = d;
        sink->write_log(nullptr, static_cast<uint64_t>(op.b), "", "", "", "", quill::LogLevel::Info, "", "", nullptr, "", text);
        ++writes;
        prev_ts = op.b;
        prev_valid = true;
      }
      else if (op.k == O_RESTART)
      {
        char mode = static_cast<char>(op.a);
        instance_start.push_back(op.b);
        open_sink(mode, op.b);
        ++restarts;
        if (mode == 'w')
        {
          ++epoch;
          ++restarts_w;
          prev_valid = false;
        }
        // a restart re-anchors the time schedule at its start instant
        if (freq >= 2)
        {
          anchor_grids(op.b);
        }
        if (freq)
        {
          // the restarted instance opens the existing file again: the next statement may legitimately share it or not
          prev_valid = false;
        }
      }
      else if (op.k == O_REMOVE_ACTIVE)
      {
        // the process has ended (sink destroyed) and somebody takes the active file away; its statements are deliberately
        // removed and no longer demanded. The rotated files stay: an append-mode restart must continue their sequence.
        if (oi + 1 < c.ops.size() && c.ops[oi + 1].k == O_RESTART && c.ops[oi + 1].a == 'a')
        {
          sink.reset();
          std::string content;
          {
            std::ifstream f(path, std::ios::binary);
            std::stringstream ss;
            ss << f.rdbuf();
            content = ss.str();
          }
          size_t pos = 0;
          while (pos < content.size())
          {
            size_t nl = content.find('\n', pos);
            if (nl == std::string::npos)
            {
              break;
            }
            if (content[pos] == 'S')
            {
              size_t idx = static_cast<size_t>(std::atoll(content.c_str() + pos + 1));
              if (idx < model.st.size())
              {
                model.st[idx].epoch = -1;
              }
            }
            pos = nl + 1;
          }
          ::unlink(path.c_str());
          ++active_removed;
        }
      }
      else if (op.k == O_FOREIGN)
      {
        std::string name = FOREIGN[op.a % NFOREIGN];
        if (name == active_name)
        {
          name = "other.log";
        }
        std::string content = "foreign content of " + name + "\n";
        std::ofstream f(dir + "/" + name, std::ios::binary);
        f << content;
        foreign[name] = content;
      }
    }
    catch (std::exception const& e)
    {
      return viol("exception_from_sink", std::string("op ") + std::to_string(oi) + ": " + e.what());
    }
    if (!overwrite && backups >= 0)
    {
      rotation_may_have_stopped = true; // conservatively: once the backup count is reached rotation stops
    }
    if (!sink)
    {
      continue; // between the end of a process and its restart (O_REMOVE_ACTIVE): judged after the restart
    }
    Verdict d = check_dir(oi);
    if (d.kind != 0)
    {
      d.detail = "after op " + std::to_string(oi) + ": " + d.detail;
      return d;
    }
  }
  sink.reset();
  v.nontrivial = writes >= 3;
  v.probes["writes"] = writes;
  v.probes["restarts"] = restarts;
  v.probes["clean_restarts_w"] = restarts_w;
  auto files = read_dir(dir);
  v.probes["files_at_end"] = files.size();
  uint64_t must_sep = 0, must_share = 0;
  for (auto const& d : demands)
  {
    must_sep += d.must == 1;
    must_share += d.must == 0;
  }
  v.probes["pairs_spanning_only_an_ambiguous_or_nonexistent_local_time"] = dst_ambiguous_pairs;
  v.probes["file_pairs_whose_local_time_names_repeat_after_a_clock_set_back"] = name_order_undefined;
  if (freq == 0)
  {
    v.probes["active_file_taken_away_before_an_append_restart"] = active_removed;
  }
  v.probes["pairs_that_must_be_separated"] = must_sep;
  v.probes["pairs_that_must_share_a_file"] = must_share;
  return v;
}

Case gen_case(std::string const& prop, uint64_t seed, int tier)
{
  if (prop == "C13")
  {
    return gen_c13(seed, tier);
  }
  return gen_rot(seed, tier, prop == "C15");
}
Verdict run_case(Case const& c, std::string const& dir)
{
  if (c.prop == "C13")
  {
    return run_c13(c, dir);
  }
  return run_rot(c, dir);
}
} // namespace sc

#include "simcomp_driver.h"
