// simcomp_driver.h — main() of the SIM-COMP engine
#pragma once
#include "../sim/batch_driver.h"

int main(int argc, char** argv)
{
  using namespace sc;
  bd::Engine<Case, Verdict> eng;
  eng.name = "simcomp";
  eng.description = "SIM-COMP (real TimestampFormatter / RotatingFileSink, single-threaded, simulated clock history and scratch directory on tmpfs, reference models)";
  eng.gen = [](std::string const& prop, uint64_t seed, int tier) { return gen_case(prop, seed, tier); };
  eng.run = [](Case const& c, std::string const& scratch) { return run_case(c, scratch); };
  eng.sample = [](Case const& c)
  {
    std::ostringstream o;
    o << "seed=" << c.seed << " tz=" << c.tz << " pattern='" << c.pattern << "' cfg{";
    for (auto const& kv : c.cfg)
    {
      o << kv.first << "=" << kv.second << ",";
    }
    o << "} ops[";
    size_t n = 0;
    for (auto const& op : c.ops)
    {
      if (n++ >= 12)
      {
        o << " ...+" << c.ops.size() - 12;
        break;
      }
      static char const* names[] = {"FORMAT", "WRITE", "RESTART", "FOREIGN", "REMOVE_ACTIVE"};
      o << " " << names[op.k < 5 ? op.k : 0] << "(" << op.a << (op.k == O_WRITE || op.k == O_RESTART ? "," + std::to_string(op.b) : std::string{}) << ")";
    }
    o << " ]";
    return o.str();
  };
  bd::PropInfo c13;
  c13.rule =
    "one case = one TimestampFormatter (pattern assembled from the accepted strftime conversions with one %Qms/%Qus/%Qns at any "
    "position, or an invalid pattern that must be rejected; GMT or local mode; one of 12 tz database zones incl. DST, :30/:45 offsets, "
    "southern hemisphere) driven by a simulated clock history of 3-120 instants in 2001-2100 with ticks, repeats, forward jumps over "
    "second/minute/quarter-hour/hour/noon/midnight/day/season boundaries and backward steps, each call compared with "
    "gmtime_r/localtime_r + strftime + spliced fraction; distinct = distinct hash of the expected outputs; non-trivial = >=3 calls";
  c13.real_components = {"TimestampFormatter", "StringFromTime", "libc time functions (oracle and code under test share them)"};
  c13.stub_components = {"the clock (instants come from the simulated clock process)"};
  c13.assumptions = {"domain restrictions of the property implemented literally: no %% before H M S I k l s; %s only in local mode or a UTC process zone, ten-digit epochs",
                     "thinnest fit of the technique: no scheduler or I/O, the simulated element is the clock with its jump faults (DESIGN.md C13)"};
  c13.quick_runs = 200000;
  c13.thorough_runs = 5000000;
  eng.props["C13"] = c13;
  bd::PropInfo c14;
  c14.rule =
    "one case = one directory history: real RotatingFileSink with a size limit (512-2048), backup count 0-5/unlimited, overwrite on/off, "
    "index/date/date-and-time naming, GMT/local zone, 3-70 ops: writes sized around the limit (small, exactly filling, larger than "
    "the limit) with timestamps stepping 0 ns-1 day, restarts (destroy + construct over the same directory in append mode, clean 'w' "
    "restarts with index naming), foreign files; after every op the directory is listed and read back against a file-set model; "
    "distinct = distinct hash of the op sequence; non-trivial = >=3 writes";
  c14.real_components = {"RotatingFileSink / RotatingSink", "FileSink / StreamSink (stdio)", "std::filesystem on tmpfs"};
  c14.stub_components = {"statement source (harness calls the sink's public write_log)", "clock (start_time parameter and statement timestamps)"};
  c14.assumptions = {"single-threaded by design (the sink is only used by the backend thread)", "statements deliberately deleted are only those in files removed for the backup count; "
                     "the oracle demands an in-order subsequence, all statements when nothing may be deleted, and always the newest statement",
                     "after a clean 'w' restart earlier statements are no longer demanded"};
  c14.quick_runs = 20000;
  c14.thorough_runs = 1000000;
  eng.props["C14"] = c14;
  bd::PropInfo c15 = c14;
  c15.rule =
    "one case = one directory history with time rotation: daily at HH:MM / hourly / minutely x interval 1-5 x GMT or local zone x naming "
    "scheme x optional size limit, start instant anywhere in a January/July day of 2001-2099, 3-70 writes with dense steps, steps of "
    "exactly one period +-ns, instants exactly on / 1 ns before / after a wall-clock boundary, and gaps of 2-9 periods, append restarts, "
    "foreign files; oracle: which file each statement is in (daily: a scheduled HH:MM point in (ts1, ts2] separates, none keeps "
    "together; hourly/minutely: demanded only when the grid reading and the 'k periods after the previous rotation' reading agree), file "
    "names encode the opening instant, plus the C14 order/loss oracle; distinct = distinct hash of the op sequence; non-trivial = >=3 writes";
  c15.assumptions = {"daily schedules are checked on days without a DST change (start days in January / July)",
                     "hourly/minutely with interval k: both documented readings are accepted (DESIGN.md C15)",
                     "a restart re-anchors the schedule at its start instant; the pair of statements around a restart is not judged"};
  eng.props["C15"] = c15;
  return bd::batch_main(argc, argv, eng);
}
