// atomic_wmm.h — std::sim_atomic<T> for SIM-Q: the full std::atomic<T> interface; every operation is a
// scheduler yield point and an event of an operational C++11 memory model (DESIGN.md 2.3): a load may
// return any store that coherence and happens-before still allow, chosen by the seeded scheduler.
#pragma once
#include <atomic>
#include <cstdint>
#include <cstring>
#include <type_traits>

namespace simq
{
// implemented in simq.cpp; values travel as 64-bit patterns
uint64_t wmm_load(void const* loc, unsigned size, int order);
void wmm_store(void* loc, unsigned size, uint64_t v, int order);
uint64_t wmm_rmw(void* loc, unsigned size, int order, int op, uint64_t operand, uint64_t expected, bool* success);
void wmm_construct(void* loc, unsigned size, uint64_t v);
void wmm_destruct(void* loc);
void wmm_fence(int order);
enum RmwOp
{
  RMW_EXCHANGE = 0,
  RMW_ADD,
  RMW_SUB,
  RMW_AND,
  RMW_OR,
  RMW_XOR,
  RMW_CAS
};
} // namespace simq

namespace std
{
template <class T>
struct sim_atomic
{
  static_assert(std::is_trivially_copyable<T>::value && sizeof(T) <= 8, "atomic of at most 8 bytes");
  using value_type = T;
  static constexpr bool is_always_lock_free = true;

  static uint64_t enc(T const& d) noexcept
  {
    uint64_t r = 0;
    std::memcpy(&r, &d, sizeof(T));
    return r;
  }
  static T dec(uint64_t r) noexcept
  {
    T d;
    std::memcpy(&d, &r, sizeof(T));
    return d;
  }

  sim_atomic() noexcept { ::simq::wmm_construct(this, sizeof(T), 0); }
  sim_atomic(T d) noexcept : v_(d) { ::simq::wmm_construct(this, sizeof(T), enc(d)); }
  ~sim_atomic() { ::simq::wmm_destruct(this); }
  sim_atomic(sim_atomic const&) = delete;
  sim_atomic& operator=(sim_atomic const&) = delete;

  bool is_lock_free() const noexcept { return true; }
  void store(T d, memory_order o = memory_order_seq_cst) noexcept
  {
    v_ = d;
    ::simq::wmm_store(this, sizeof(T), enc(d), static_cast<int>(o));
  }
  T load(memory_order o = memory_order_seq_cst) const noexcept { return dec(::simq::wmm_load(this, sizeof(T), static_cast<int>(o))); }
  operator T() const noexcept { return load(); }
  T operator=(T d) noexcept
  {
    store(d);
    return d;
  }
  T exchange(T d, memory_order o = memory_order_seq_cst) noexcept
  {
    return dec(::simq::wmm_rmw(this, sizeof(T), static_cast<int>(o), ::simq::RMW_EXCHANGE, enc(d), 0, nullptr));
  }
  bool compare_exchange_strong(T& expected, T desired, memory_order o = memory_order_seq_cst, memory_order = memory_order_seq_cst) noexcept
  {
    bool ok = false;
    uint64_t old = ::simq::wmm_rmw(this, sizeof(T), static_cast<int>(o), ::simq::RMW_CAS, enc(desired), enc(expected), &ok);
    if (!ok)
    {
      expected = dec(old);
    }
    return ok;
  }
  bool compare_exchange_weak(T& expected, T desired, memory_order a = memory_order_seq_cst, memory_order b = memory_order_seq_cst) noexcept
  {
    return compare_exchange_strong(expected, desired, a, b);
  }
  template <class U = T>
  typename enable_if<is_integral<U>::value, T>::type fetch_add(U d, memory_order o = memory_order_seq_cst) noexcept
  {
    return dec(::simq::wmm_rmw(this, sizeof(T), static_cast<int>(o), ::simq::RMW_ADD, enc(d), 0, nullptr));
  }
  template <class U = T>
  typename enable_if<is_integral<U>::value, T>::type fetch_sub(U d, memory_order o = memory_order_seq_cst) noexcept
  {
    return dec(::simq::wmm_rmw(this, sizeof(T), static_cast<int>(o), ::simq::RMW_SUB, enc(d), 0, nullptr));
  }
  template <class U = T>
  typename enable_if<is_integral<U>::value, T>::type fetch_and(U d, memory_order o = memory_order_seq_cst) noexcept
  {
    return dec(::simq::wmm_rmw(this, sizeof(T), static_cast<int>(o), ::simq::RMW_AND, enc(d), 0, nullptr));
  }
  template <class U = T>
  typename enable_if<is_integral<U>::value, T>::type fetch_or(U d, memory_order o = memory_order_seq_cst) noexcept
  {
    return dec(::simq::wmm_rmw(this, sizeof(T), static_cast<int>(o), ::simq::RMW_OR, enc(d), 0, nullptr));
  }
  template <class U = T>
  typename enable_if<is_integral<U>::value, T>::type fetch_xor(U d, memory_order o = memory_order_seq_cst) noexcept
  {
    return dec(::simq::wmm_rmw(this, sizeof(T), static_cast<int>(o), ::simq::RMW_XOR, enc(d), 0, nullptr));
  }
  template <class U = T>
  typename enable_if<is_integral<U>::value, T>::type operator++() noexcept
  {
    return fetch_add(1) + 1;
  }
  template <class U = T>
  typename enable_if<is_integral<U>::value, T>::type operator++(int) noexcept
  {
    return fetch_add(1);
  }
  template <class U = T>
  typename enable_if<is_integral<U>::value, T>::type operator--() noexcept
  {
    return fetch_sub(1) - 1;
  }
  template <class U = T>
  typename enable_if<is_integral<U>::value, T>::type operator--(int) noexcept
  {
    return fetch_sub(1);
  }
  template <class U = T>
  typename enable_if<is_integral<U>::value, T>::type operator+=(U d) noexcept
  {
    return fetch_add(d) + d;
  }
  template <class U = T>
  typename enable_if<is_integral<U>::value, T>::type operator-=(U d) noexcept
  {
    return fetch_sub(d) - d;
  }

  T v_{}; // the newest value (kept for debuggers; the model's history is authoritative)
};

inline void sim_atomic_thread_fence(memory_order o) noexcept { ::simq::wmm_fence(static_cast<int>(o)); }
inline void sim_atomic_signal_fence(memory_order) noexcept {}
} // namespace std
