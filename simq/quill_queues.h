// the two queue headers under test (included through the prelude with the atomic seam active)
#include "quill/core/BoundedSPSCQueue.h"
#include "quill/core/UnboundedSPSCQueue.h"
