// simq.cpp — SIM-Q: the two real SPSC queue classes between one producer and one consumer task
// (ucontext fibres) under a seeded scheduler, an operational C++11 weak-memory model for atomics
// (simq/atomic_wmm.h), a byte-level happens-before race detector on the payload, a mapping / retired-
// atomic lifetime detector and a FIFO reference model. Properties: C01, C02, C09 (queue level).
#define SIM_ATOMIC_HEADER "../simq/atomic_wmm.h"
#define SIM_QUILL_INCLUDES "../simq/quill_queues.h"
#include "../sim/prelude.h"

#include <deque>
#include <sys/mman.h>
#include <sys/syscall.h>
#include <ucontext.h>

// ---- symbols the prelude's token macros refer to (SIM-Q does not link sim.cpp) -----------------------------
long sim_syscall_shim(long number, ...) { return ::syscall(number); }
namespace sim
{
uint64_t rdtsc() { return 0; }
} // namespace sim

namespace simq
{
struct Rng
{
  uint64_t s;
  explicit Rng(uint64_t seed = 1) : s(seed * 0x9E3779B97F4A7C15ull + 0xD1B54A32D192ED03ull) {}
  uint64_t next()
  {
    uint64_t z = (s += 0x9E3779B97F4A7C15ull);
    z = (z ^ (z >> 30)) * 0xBF58476D1CE4E5B9ull;
    z = (z ^ (z >> 27)) * 0x94D049BB133111EBull;
    return z ^ (z >> 31);
  }
  uint32_t below(uint32_t n) { return n <= 1 ? 0 : static_cast<uint32_t>(next() % n); }
  int64_t range(int64_t lo, int64_t hi) { return lo + static_cast<int64_t>(next() % static_cast<uint64_t>(hi - lo + 1)); }
  bool chance(uint32_t a, uint32_t b) { return below(b) < a; }
  template <class T>
  T pick(std::initializer_list<T> l)
  {
    auto it = l.begin();
    std::advance(it, below(static_cast<uint32_t>(l.size())));
    return *it;
  }
};

// ================================================================================================ engine state
constexpr int NT = 2; // producer = 0, consumer = 1
struct VC
{
  uint32_t c[NT] = {0, 0};
  void join(VC const& o)
  {
    for (int i = 0; i < NT; ++i)
    {
      if (o.c[i] > c[i])
      {
        c[i] = o.c[i];
      }
    }
  }
};
struct StoreRec
{
  uint64_t value;
  int writer;     // -1 = initial value
  uint32_t wtime; // writer's own clock at the store
  bool release;
  VC vc; // clock published by a release store (or inherited through a release sequence)
};
struct Location
{
  unsigned size = 0;
  std::vector<StoreRec> hist; // modification order (bounded window)
  uint64_t base_index = 0;    // index of hist[0] in the full modification order
  uint64_t floor[NT] = {0, 0};
  uint32_t stale_reads[NT] = {0, 0};
  int id = 0;
};
struct Mapping
{
  uintptr_t base;
  size_t size;
  struct B
  {
    int8_t wtid = -1;
    uint32_t wtime = 0;
    uint32_t rtime[NT] = {0, 0};
  };
  std::vector<B> shadow;
};

struct Engine
{
  bool active = false;
  int current = -1; // running task
  VC vc[NT];
  VC sc; // seq_cst operations additionally synchronise through one global clock (stronger than the standard)
  std::unordered_map<void const*, Location> locs;
  std::unordered_set<void const*> retired;
  std::vector<Mapping> maps;
  Rng rng{1};
  uint32_t stale_permille = 300;
  uint32_t force_after = 3;
  uint32_t den = 4;
  bool wmm = true;
  uint64_t hash = 1469598103934665603ull;
  uint64_t steps = 0, stale_injected = 0, switches = 0;
  std::string violation_tag, violation_detail;
  std::map<std::string, std::string> violation_fields;
  int next_loc_id = 1;
  // fibres
  ucontext_t sched_ctx;
  ucontext_t task_ctx[NT];
  bool task_done[NT] = {true, true};
  std::function<bool()> waiting[NT];
  uint64_t mmap_count = 0, munmap_count = 0;
};
Engine* E = nullptr;

inline void mix(uint64_t v)
{
  E->hash ^= v;
  E->hash *= 1099511628211ull;
}

void fail(std::string tag, std::string detail, std::map<std::string, std::string> f = {})
{
  if (E->violation_tag.empty())
  {
    E->violation_tag = std::move(tag);
    E->violation_detail = std::move(detail);
    E->violation_fields = std::move(f);
  }
  if (E->active && E->current >= 0)
  {
    // never unwind through the queue (noexcept functions): drop the run from the scheduler context
    int me = E->current;
    swapcontext(&E->task_ctx[me], &E->sched_ctx);
  }
}

// scheduling point: control goes to the scheduler, which picks the next task
void yield_now()
{
  if (!E || !E->active || E->current < 0)
  {
    return;
  }
  ++E->steps;
  int me = E->current;
  swapcontext(&E->task_ctx[me], &E->sched_ctx);
}

Location& loc_of(void const* p, unsigned size)
{
  auto it = E->locs.find(p);
  if (it == E->locs.end())
  {
    if (E->retired.count(p))
    {
      fail("atomic_accessed_after_its_buffer_was_retired", "an atomic of a deleted queue node was accessed again");
    }
    Location l;
    l.size = size;
    l.id = E->next_loc_id++;
    l.hist.push_back(StoreRec{0, -1, 0, false, VC{}});
    it = E->locs.emplace(p, std::move(l)).first;
  }
  return it->second;
}

inline bool is_acquire(int o) { return o == static_cast<int>(std::memory_order_acquire) || o == static_cast<int>(std::memory_order_acq_rel) || o == static_cast<int>(std::memory_order_seq_cst) || o == static_cast<int>(std::memory_order_consume); }
inline bool is_release(int o) { return o == static_cast<int>(std::memory_order_release) || o == static_cast<int>(std::memory_order_acq_rel) || o == static_cast<int>(std::memory_order_seq_cst); }
inline bool is_sc(int o) { return o == static_cast<int>(std::memory_order_seq_cst); }

void wmm_construct(void* loc, unsigned size, uint64_t v)
{
  if (!E)
  {
    return;
  }
  E->retired.erase(loc);
  Location l;
  l.size = size;
  l.id = E->next_loc_id++;
  l.hist.push_back(StoreRec{v, -1, 0, false, VC{}});
  E->locs[loc] = std::move(l);
}

void wmm_destruct(void* loc)
{
  if (!E)
  {
    return;
  }
  E->locs.erase(loc);
  E->retired.insert(loc);
}

void append_store(Location& l, StoreRec r)
{
  l.hist.push_back(std::move(r));
  if (l.hist.size() > 8)
  {
    l.hist.erase(l.hist.begin());
    ++l.base_index;
  }
}

uint64_t wmm_load(void const* p, unsigned size, int order)
{
  if (!E)
  {
    uint64_t v = 0;
    std::memcpy(&v, p, size);
    return v;
  }
  if (!E->active || E->current < 0)
  {
    Location& l = loc_of(p, size);
    return l.hist.back().value;
  }
  yield_now();
  int t = E->current;
  Location& l = loc_of(p, size);
  uint64_t newest = l.base_index + l.hist.size() - 1;
  uint64_t lb = l.floor[t] > l.base_index ? l.floor[t] : l.base_index;
  // the newest store that happens-before this load
  for (size_t i = l.hist.size(); i-- > 0;)
  {
    StoreRec const& s = l.hist[i];
    if (s.writer < 0 || s.writer == t || E->vc[t].c[s.writer] >= s.wtime)
    {
      uint64_t idx = l.base_index + i;
      if (idx > lb)
      {
        lb = idx;
      }
      break;
    }
  }
  uint64_t pick = newest;
  if (E->wmm && lb < newest && l.stale_reads[t] < E->force_after && E->rng.below(1000) < E->stale_permille)
  {
    pick = lb + E->rng.below(static_cast<uint32_t>(newest - lb));
    ++l.stale_reads[t];
    ++E->stale_injected;
  }
  else
  {
    l.stale_reads[t] = 0;
  }
  StoreRec const& s = l.hist[static_cast<size_t>(pick - l.base_index)];
  l.floor[t] = pick;
  if (is_acquire(order) && s.release)
  {
    E->vc[t].join(s.vc);
  }
  if (is_sc(order))
  {
    E->vc[t].join(E->sc);
  }
  mix((static_cast<uint64_t>(t) << 32) ^ (static_cast<uint64_t>(l.id) << 8) ^ 1);
  mix(l.size == 8 && s.value > 0x100000000000ull ? 1 : s.value); // pointers never enter the hash
  return s.value;
}

void wmm_store(void* p, unsigned size, uint64_t v, int order)
{
  if (!E)
  {
    return;
  }
  if (!E->active || E->current < 0)
  {
    Location& l = loc_of(p, size);
    l.hist.clear();
    l.hist.push_back(StoreRec{v, -1, 0, false, VC{}});
    return;
  }
  yield_now();
  int t = E->current;
  Location& l = loc_of(p, size);
  ++E->vc[t].c[t];
  StoreRec r;
  r.value = v;
  r.writer = t;
  r.wtime = E->vc[t].c[t];
  r.release = false;
  if (is_release(order))
  {
    r.release = true;
    r.vc = E->vc[t];
  }
  else if (l.hist.back().writer == t && l.hist.back().release)
  {
    // C++11 release sequence: later stores of the same thread continue it
    r.release = true;
    r.vc = l.hist.back().vc;
  }
  if (is_sc(order))
  {
    E->sc.join(E->vc[t]);
    E->vc[t].join(E->sc);
    r.vc = E->vc[t];
  }
  append_store(l, r);
  l.floor[t] = l.base_index + l.hist.size() - 1;
  mix((static_cast<uint64_t>(t) << 32) ^ (static_cast<uint64_t>(l.id) << 8) ^ 2);
  mix(l.size == 8 && v > 0x100000000000ull ? 1 : v);
}

uint64_t wmm_rmw(void* p, unsigned size, int order, int op, uint64_t operand, uint64_t expected, bool* success)
{
  if (!E)
  {
    return 0;
  }
  bool live = E->active && E->current >= 0;
  if (live)
  {
    yield_now();
  }
  int t = live ? E->current : 0;
  Location& l = loc_of(p, size);
  StoreRec prev = l.hist.back(); // an RMW reads the newest store
  uint64_t mask = size >= 8 ? ~0ull : ((1ull << (size * 8)) - 1);
  uint64_t nv = prev.value;
  switch (op)
  {
  case RMW_EXCHANGE: nv = operand; break;
  case RMW_ADD: nv = (prev.value + operand) & mask; break;
  case RMW_SUB: nv = (prev.value - operand) & mask; break;
  case RMW_AND: nv = prev.value & operand; break;
  case RMW_OR: nv = prev.value | operand; break;
  case RMW_XOR: nv = prev.value ^ operand; break;
  case RMW_CAS:
    if (prev.value == expected)
    {
      nv = operand;
      *success = true;
    }
    else
    {
      *success = false;
      if (live)
      {
        l.floor[t] = l.base_index + l.hist.size() - 1;
        if (is_acquire(order) && prev.release)
        {
          E->vc[t].join(prev.vc);
        }
      }
      return prev.value;
    }
    break;
  default: break;
  }
  if (!live)
  {
    l.hist.clear();
    l.hist.push_back(StoreRec{nv, -1, 0, false, VC{}});
    return prev.value;
  }
  if (is_acquire(order) && prev.release)
  {
    E->vc[t].join(prev.vc);
  }
  ++E->vc[t].c[t];
  StoreRec r;
  r.value = nv;
  r.writer = t;
  r.wtime = E->vc[t].c[t];
  r.release = prev.release; // an RMW continues the release sequence
  r.vc = prev.vc;
  if (is_release(order))
  {
    r.release = true;
    r.vc.join(E->vc[t]);
  }
  if (is_sc(order))
  {
    E->sc.join(E->vc[t]);
    E->vc[t].join(E->sc);
  }
  append_store(l, r);
  l.floor[t] = l.base_index + l.hist.size() - 1;
  mix((static_cast<uint64_t>(t) << 32) ^ (static_cast<uint64_t>(l.id) << 8) ^ 3);
  return prev.value;
}

void wmm_fence(int)
{
  if (!E || !E->active || E->current < 0)
  {
    return;
  }
  yield_now();
  int t = E->current;
  ++E->vc[t].c[t];
  E->sc.join(E->vc[t]);
  E->vc[t].join(E->sc);
}

// ---- plain memory: the payload bytes the harness copies into / out of the queue -----------------------------
Mapping* mapping_of(void const* p, size_t n)
{
  uintptr_t a = reinterpret_cast<uintptr_t>(p);
  for (auto& m : E->maps)
  {
    if (a >= m.base && a + n <= m.base + m.size)
    {
      return &m;
    }
  }
  return nullptr;
}

bool plain_access(void const* p, size_t n, bool write)
{
  Mapping* m = mapping_of(p, n);
  if (!m)
  {
    fail(write ? "reservation_outside_any_live_buffer" : "read_position_outside_any_live_buffer",
         std::string(write ? "the producer was handed" : "the consumer was handed") +
           " a range that is not inside a live queue mapping (retired or never allocated)");
    return false;
  }
  int t = E->current;
  size_t off = reinterpret_cast<uintptr_t>(p) - m->base;
  for (size_t i = 0; i < n; ++i)
  {
    Mapping::B& b = m->shadow[off + i];
    if (b.wtid >= 0 && b.wtid != t && E->vc[t].c[b.wtid] < b.wtime)
    {
      fail(write ? "data_race_write_after_write" : "data_race_read_of_unpublished_bytes",
           std::string("payload byte ") + std::to_string(off + i) + (write ? " written" : " read") + " by the " +
             (t == 0 ? "producer" : "consumer") + " is not ordered after the last write of the " + (b.wtid == 0 ? "producer" : "consumer") +
             " (missing release/acquire: torn / stale / visible-before-commit on weak hardware)",
           {{"access", write ? "write" : "read"}});
      return false;
    }
    if (write)
    {
      for (int r = 0; r < NT; ++r)
      {
        if (r != t && E->vc[t].c[r] < b.rtime[r])
        {
          fail("data_race_overwrite_of_bytes_still_being_read",
               "payload byte " + std::to_string(off + i) + " overwritten by the producer is not ordered after the consumer's read of it "
                                                            "(reader position published too early / space check too generous)");
          return false;
        }
      }
      b.wtid = static_cast<int8_t>(t);
      b.wtime = E->vc[t].c[t];
    }
    else
    {
      b.rtime[t] = E->vc[t].c[t];
    }
  }
  return true;
}
} // namespace simq

// ---- mapping tracker: the queue allocates its storage with mmap ---------------------------------------------------
extern "C" void* mmap(void* addr, size_t len, int prot, int flags, int fd, off_t off)
{
  void* p = reinterpret_cast<void*>(::syscall(SYS_mmap, addr, len, prot, flags, fd, off));
  if (simq::E && p != MAP_FAILED && (flags & MAP_ANONYMOUS) && simq::E->current != -2)
  {
    simq::Mapping m;
    m.base = reinterpret_cast<uintptr_t>(p);
    m.size = len;
    int saved = simq::E->current;
    simq::E->current = -2; // the shadow's own allocation must not recurse
    m.shadow.resize(len);
    simq::E->maps.push_back(std::move(m));
    simq::E->current = saved;
    ++simq::E->mmap_count;
  }
  return p;
}
extern "C" int munmap(void* addr, size_t len)
{
  if (simq::E && simq::E->current != -2)
  {
    for (size_t i = 0; i < simq::E->maps.size(); ++i)
    {
      if (simq::E->maps[i].base == reinterpret_cast<uintptr_t>(addr))
      {
        // the kernel orders unmap -> re-map of the same address: the byte shadows go with the mapping
        simq::E->maps.erase(simq::E->maps.begin() + static_cast<long>(i));
        ++simq::E->munmap_count;
        break;
      }
    }
  }
  return static_cast<int>(::syscall(SYS_munmap, addr, len));
}

#include "simq_cases.h"
