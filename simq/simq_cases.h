// simq_cases.h — cases, generators, task programs, reference model and main() of SIM-Q
#pragma once
#include "../sim/batch_driver.h"

namespace simq
{
enum QK
{
  P_WRITE = 0, // a = n, b = deferred commit (0 = commit immediately, k = commit after k further records or at the end)
  P_SHRINK,    // a = capacity
  P_QUIESCE,   // a = n : drain the queue, let the consumer go idle, then ask for n bytes (C09)
  C_PASS,      // a = max records in this pass (then one commit_read, as the backend does)
  C_EMPTY      // a bare empty() poll
};
struct QOp
{
  int who; // 0 producer, 1 consumer
  int k;
  int64_t a, b;
};
struct Case
{
  std::string prop;
  uint64_t seed = 0;
  std::map<std::string, int64_t> cfg;
  std::vector<QOp> ops;
  int64_t get(std::string const& k, int64_t d = 0) const
  {
    auto it = cfg.find(k);
    return it == cfg.end() ? d : it->second;
  }
  std::string to_text() const
  {
    std::ostringstream o;
    o << "# quill-verif replay v1\nengine simq\nproperty " << prop << "\nseed " << seed << "\n";
    for (auto const& kv : cfg)
    {
      o << "cfg " << kv.first << " " << kv.second << "\n";
    }
    for (auto const& op : ops)
    {
      o << "op " << op.who << " " << op.k << " " << op.a << " " << op.b << "\n";
    }
    return o.str();
  }
  static bool from_text(std::string const& t, Case& c)
  {
    std::istringstream in(t);
    std::string line;
    c = Case{};
    while (std::getline(in, line))
    {
      if (line.empty() || line[0] == '#')
      {
        continue;
      }
      std::istringstream ls(line);
      std::string w;
      ls >> w;
      if (w == "engine")
      {
        continue;
      }
      if (w == "property")
      {
        ls >> c.prop;
      }
      else if (w == "seed")
      {
        ls >> c.seed;
      }
      else if (w == "cfg")
      {
        std::string k;
        int64_t v;
        ls >> k >> v;
        c.cfg[k] = v;
      }
      else if (w == "op")
      {
        QOp op{};
        ls >> op.who >> op.k >> op.a >> op.b;
        c.ops.push_back(op);
      }
      else
      {
        return false;
      }
    }
    return !c.prop.empty();
  }
};
struct Verdict
{
  int kind = 0;
  std::string tag, detail;
  std::map<std::string, std::string> fields;
  bool nontrivial = false;
  std::map<std::string, uint64_t> probes;
  uint64_t hash = 0;
};

// ------------------------------------------------------------------------------------------------ generators
void gen_sched_cfg(Case& c, Rng& r)
{
  c.cfg["sched_seed"] = static_cast<int64_t>(r.next() >> 1);
  c.cfg["den"] = r.pick<int64_t>({1, 2, 2, 4, 4, 8, 16});
  c.cfg["wmm"] = r.chance(5, 6) ? 1 : 0;
  c.cfg["stale"] = r.pick<int64_t>({50, 200, 400, 700});
  c.cfg["force_after"] = r.pick<int64_t>({1, 2, 3, 5});
}

Case gen_c01(uint64_t seed, int tier, bool quiesce)
{
  Rng r(seed);
  Case c;
  c.prop = quiesce ? "C09" : "C01";
  c.seed = seed;
  gen_sched_cfg(c, r);
  int type = static_cast<int>(r.below(4)); // 0 uint8_t, 1 uint16_t, 2 uint32_t, 3 size_t
  c.cfg["type"] = type;
  int64_t cap = type == 0 ? r.pick<int64_t>({16, 32, 64, 128}) : r.pick<int64_t>({16, 32, 64, 128, 256, 1024, 4096});
  if (type == 1 && cap > 4096)
  {
    cap = 4096;
  }
  c.cfg["cap"] = cap;
  if (cap >= 32 && Rng(seed ^ 0x9ca9).chance(1, 5))
  {
    // the constructor is asked for a capacity that is not a power of two and must round it up to `cap`
    c.cfg["req"] = cap - Rng(seed ^ 0x9caa).range(1, cap / 2 - 1);
  }
  c.cfg["percent"] = r.pick<int64_t>({0, 5, 5, 25, 50, 100});
  int nops = static_cast<int>(r.range(quiesce ? 10 : 30, tier ? 600 : 300));
  auto size = [&]() -> int64_t
  {
    uint32_t z = r.below(100);
    if (z < 45)
    {
      return r.range(8, std::min<int64_t>(cap, 24));
    }
    if (z < 70)
    {
      return r.range(8, std::max<int64_t>(8, cap / 2));
    }
    if (z < 90)
    {
      return std::max<int64_t>(8, cap - r.range(0, std::min<int64_t>(cap - 8, 12)));
    }
    if (z < 95)
    {
      return cap;
    }
    return cap + r.range(1, 9); // must always be refused
  };
  for (int i = 0; i < nops; ++i)
  {
    uint32_t z = r.below(100);
    if (z < 50)
    {
      c.ops.push_back(QOp{0, P_WRITE, size(), r.chance(1, 5) ? r.range(1, 3) : 0});
    }
    else if (z < 90)
    {
      c.ops.push_back(QOp{1, C_PASS, r.pick<int64_t>({1, 1, 2, 4, 16, 1000}), 0});
    }
    else if (z < 95 || !quiesce)
    {
      c.ops.push_back(QOp{1, C_EMPTY, 0, 0});
    }
    if (quiesce && r.chance(1, 12))
    {
      int64_t n = r.chance(3, 4) ? std::max<int64_t>(8, cap - r.range(0, std::max<int64_t>(1, cap / 8))) : r.range(8, cap);
      c.ops.push_back(QOp{0, P_QUIESCE, n, 0});
    }
  }
  if (quiesce)
  {
    c.ops.push_back(QOp{0, P_QUIESCE, std::max<int64_t>(8, cap - r.range(0, std::max<int64_t>(1, cap / 16))), 0});
  }
  return c;
}

Case gen_c02(uint64_t seed, int tier, bool quiesce)
{
  Rng r(seed);
  Case c;
  c.prop = quiesce ? "C09" : "C02";
  c.seed = seed;
  gen_sched_cfg(c, r);
  c.cfg["unbounded"] = 1;
  int64_t init = r.pick<int64_t>({64, 128, 256, 1024});
  // maxima that are and are not power-of-two multiples of the initial capacity
  int64_t maxc = r.chance(2, 3) ? init * r.pick<int64_t>({1, 2, 4, 16}) : r.pick<int64_t>({init * 3, init * 6, init * 2 + 100, init * 5 / 2, 1000, 3000});
  if (maxc < init)
  {
    maxc = init;
  }
  c.cfg["cap"] = init;
  c.cfg["max"] = maxc;
  // the largest buffer the queue can actually reach by doubling: C09's "maximum capacity" (for a maximum that is not
  // a power-of-two multiple of the initial capacity the two differ, and what must happen in between is not stated)
  int64_t reach = init;
  while (reach * 2 <= maxc)
  {
    reach *= 2;
  }
  int nops = static_cast<int>(r.range(quiesce ? 10 : 30, tier ? 400 : 250));
  int64_t cur = init;
  for (int i = 0; i < nops; ++i)
  {
    uint32_t z = r.below(100);
    if (z < 48)
    {
      int64_t n;
      uint32_t y = r.below(100);
      if (y < 50)
      {
        n = r.range(8, 40);
      }
      else if (y < 70)
      {
        n = r.range(8, std::max<int64_t>(8, cur / 2));
      }
      else if (y < 85)
      {
        n = cur + r.range(1, cur); // larger than the current buffer: must grow (possibly several doublings)
      }
      else if (y < 93)
      {
        n = std::max<int64_t>(8, maxc - r.range(0, 16));
      }
      else
      {
        n = maxc + r.range(1, 64); // larger than the maximum: must be rejected with an error
      }
      c.ops.push_back(QOp{0, P_WRITE, n, r.chance(1, 6) ? r.range(1, 3) : 0});
      while (n > cur && cur * 2 <= maxc)
      {
        cur *= 2;
      }
    }
    else if (z < 55)
    {
      int64_t cap = r.pick<int64_t>({init, init / 2, cur / 2, cur / 4, cur, cur * 2, 100});
      c.ops.push_back(QOp{0, P_SHRINK, std::max<int64_t>(16, cap), 0});
    }
    else if (z < 93)
    {
      c.ops.push_back(QOp{1, C_PASS, r.pick<int64_t>({1, 1, 2, 4, 16, 1000}), 0});
    }
    else
    {
      c.ops.push_back(QOp{1, C_EMPTY, 0, 0});
    }
    if (quiesce && r.chance(1, 12))
    {
      int64_t n = r.chance(3, 4) ? std::max<int64_t>(8, reach - r.range(0, std::max<int64_t>(1, reach / 8))) : r.range(8, reach);
      c.ops.push_back(QOp{0, P_QUIESCE, n, 0});
    }
  }
  if (quiesce)
  {
    c.ops.push_back(QOp{0, P_QUIESCE, std::max<int64_t>(8, reach - r.range(0, std::max<int64_t>(1, reach / 16))), 0});
  }
  return c;
}

Case gen_case(std::string const& prop, uint64_t seed, int tier)
{
  if (prop == "C01")
  {
    return gen_c01(seed, tier, false);
  }
  if (prop == "C02")
  {
    return gen_c02(seed, tier, false);
  }
  // C09 queue level: bounded and unbounded
  Rng r(seed ^ 0x5555);
  return r.chance(2, 3) ? gen_c01(seed, tier, true) : gen_c02(seed, tier, true);
}

// ------------------------------------------------------------------------------------------------ run
struct Rec
{
  uint32_t seq;
  uint32_t len;
  bool committed;
};
struct Shared
{
  std::deque<Rec> fifo; // finished writes not yet consumed
  uint64_t W = 0, Rf = 0; // bytes finished writing / finished reading (true state)
  uint32_t next_seq = 1;
  bool producer_done = false;
  bool drain_request = false, drained = false;
  std::vector<size_t> node_caps; // unbounded: capacities of the node sequence as the producer created them
  size_t consumer_node = 0;
  uint64_t refusals = 0, grants = 0, oversize_refused = 0, growths = 0, shrinks = 0, switches_seen = 0, quiesce_checks = 0,
           records_read = 0, deferred_commits = 0, wraps = 0, errors_thrown = 0;
};

inline uint8_t pattern_byte(uint32_t seq, uint32_t i) { return static_cast<uint8_t>(seq * 131u + i * 7u + 3u); }

template <class Q, bool Unbounded>
struct Runner
{
  Case const& c;
  Q* q = nullptr;
  Shared S;
  size_t cap, maxcap;
  uintptr_t storage_base = 0;
  bool base_known = false;
  static Runner* self;

  explicit Runner(Case const& cc) : c(cc), cap(static_cast<size_t>(cc.get("cap"))), maxcap(static_cast<size_t>(cc.get("max", cc.get("cap")))) {}

  std::byte* do_prepare_write(size_t n, bool& threw)
  {
    threw = false;
    if constexpr (Unbounded)
    {
      // A reservation that does not fit makes the queue commit everything written to the old buffer before it
      // switches (by design). Whether this call grows is the queue's decision, so from here on the finished
      // records count as possibly committed: "visible before its commit" is judged between finish_write and the
      // next reservation only.
      for (auto& rec : S.fifo)
      {
        rec.committed = true;
      }
      QUILL_TRY { return q->prepare_write(n); }
      QUILL_CATCH(quill::QuillError const&)
      {
        threw = true;
        return nullptr;
      }
    }
    else
    {
      return q->prepare_write(static_cast<typename Q::integer_type>(n));
    }
  }
  size_t producer_capacity() const
  {
    if constexpr (Unbounded)
    {
      return q->producer_capacity();
    }
    else
    {
      return cap;
    }
  }
  // write one record into granted space
  void emit(std::byte* ptr, size_t n, int64_t defer, uint32_t& pending)
  {
    if (!Unbounded)
    {
      if (n > cap)
      {
        fail("reservation_larger_than_capacity_granted", "prepare_write(" + std::to_string(n) + ") was granted with capacity " + std::to_string(cap));
        return;
      }
      if (n > cap - (S.W - S.Rf))
      {
        fail("reservation_granted_without_released_space",
             "prepare_write(" + std::to_string(n) + ") was granted while " + std::to_string(S.W - S.Rf) + " of " + std::to_string(cap) +
               " bytes are written and not yet read");
        return;
      }
      if (!base_known)
      {
        storage_base = reinterpret_cast<uintptr_t>(ptr) - (S.W & (cap - 1));
        base_known = true;
      }
      else if (reinterpret_cast<uintptr_t>(ptr) - storage_base != (S.W & (cap - 1)))
      {
        fail("reservation_at_wrong_offset", "write position " + std::to_string(reinterpret_cast<uintptr_t>(ptr) - storage_base) +
                                              " but " + std::to_string(S.W) + " bytes were written (capacity " + std::to_string(cap) + ")");
        return;
      }
    }
    if (!plain_access(ptr, n, true))
    {
      return;
    }
    uint32_t seq = S.next_seq++;
    uint32_t len = static_cast<uint32_t>(n);
    std::memcpy(ptr, &len, 4);
    std::memcpy(reinterpret_cast<char*>(ptr) + 4, &seq, 4);
    for (uint32_t i = 8; i < len; ++i)
    {
      reinterpret_cast<uint8_t*>(ptr)[i] = pattern_byte(seq, i);
    }
    if constexpr (Unbounded)
    {
      q->finish_write(n);
    }
    else
    {
      q->finish_write(static_cast<typename Q::integer_type>(n));
    }
    uint64_t before = S.W;
    S.W += n;
    if (pos_bits() < 64 && (before >> pos_bits()) != (S.W >> pos_bits()))
    {
      ++S.wraps; // the queue's free-running position counter wrapped around
    }
    S.fifo.push_back(Rec{seq, len, false});
    ++S.grants;
    if (defer == 0 && pending == 0)
    {
      commit_all();
    }
    else
    {
      if (pending == 0)
      {
        pending = static_cast<uint32_t>(defer) + 1;
        ++S.deferred_commits;
      }
      if (--pending == 0)
      {
        commit_all();
      }
    }
  }
  static unsigned pos_bits()
  {
    if constexpr (Unbounded)
    {
      return 64;
    }
    else
    {
      return 8 * sizeof(typename Q::integer_type);
    }
  }

  void commit_all()
  {
    for (auto& rec : S.fifo)
    {
      rec.committed = true; // marked before the publishing store: the consumer cannot see it earlier
    }
    q->commit_write();
  }

  void producer()
  {
    uint32_t pending = 0;
    for (auto const& op : c.ops)
    {
      if (op.who != 0 || !E->violation_tag.empty())
      {
        continue;
      }
      if (op.k == P_WRITE)
      {
        size_t n = static_cast<size_t>(op.a < 8 ? 8 : op.a);
        bool granted = false;
        for (int attempt = 0; attempt < 6 && !granted; ++attempt)
        {
          bool threw;
          size_t cap_before = producer_capacity();
          std::byte* ptr = do_prepare_write(n, threw);
          if (Unbounded)
          {
            if (threw != (n > maxcap))
            {
              fail(threw ? "fitting_record_rejected_with_error" : "oversize_record_not_rejected",
                   "record of " + std::to_string(n) + " bytes, maximum capacity " + std::to_string(maxcap));
              return;
            }
            if (threw)
            {
              ++S.errors_thrown;
              break;
            }
            if (producer_capacity() > maxcap)
            {
              fail("allocated_beyond_the_maximum_capacity", "producer buffer of " + std::to_string(producer_capacity()) + " bytes, maximum " + std::to_string(maxcap));
              return;
            }
            if (producer_capacity() != cap_before)
            {
              ++S.growths;
              S.node_caps.push_back(producer_capacity());
              // by design the queue commits what was written to the old buffer before it switches
              for (auto& rec : S.fifo)
              {
                rec.committed = true;
              }
              pending = 0;
            }
          }
          if (ptr)
          {
            emit(ptr, n, op.b, pending);
            granted = true;
          }
          else
          {
            ++S.refusals;
            if (!Unbounded && n > cap)
            {
              ++S.oversize_refused;
              break;
            }
            yield_now();
          }
        }
      }
      else if (op.k == P_SHRINK)
      {
        if constexpr (Unbounded)
        {
          if (pending)
          {
            commit_all();
            pending = 0;
          }
          size_t before = q->producer_capacity();
          q->shrink(static_cast<size_t>(op.a));
          size_t after = q->producer_capacity();
          if (after != before)
          {
            ++S.shrinks;
            S.node_caps.push_back(after);
            if (after > before || after > maxcap)
            {
              fail("shrink_grew_the_queue", std::to_string(before) + " -> " + std::to_string(after));
              return;
            }
          }
        }
      }
      else if (op.k == P_QUIESCE)
      {
        if (pending)
        {
          commit_all();
          pending = 0;
        }
        S.drain_request = true;
        wait_for([this] { return S.drained; });
        if (!S.drained)
        {
          S.drain_request = false;
          continue; // inconclusive for this check (the consumer did not get there in the step budget)
        }
        // the queue is empty, the consumer is idle (it only polls): a request that fits must be granted
        size_t n = static_cast<size_t>(op.a < 8 ? 8 : op.a);
        std::byte* ptr = nullptr;
        int attempts = static_cast<int>(E->force_after) + 6;
        for (int k = 0; k < attempts && !ptr; ++k)
        {
          bool threw;
          size_t cap_before = producer_capacity();
          ptr = do_prepare_write(n, threw);
          if (Unbounded && producer_capacity() != cap_before)
          {
            ++S.growths;
            S.node_caps.push_back(producer_capacity());
          }
          if (!ptr)
          {
            yield_now();
          }
        }
        ++S.quiesce_checks;
        if (!ptr)
        {
          fail("reservation_refused_although_queue_empty_and_consumer_idle",
               "prepare_write(" + std::to_string(n) + ") refused " + std::to_string(attempts) + " times; capacity " +
                 std::to_string(Unbounded ? maxcap : cap) + ", bytes written " + std::to_string(S.W) + ", all consumed",
               {{"size_within_5pct_of_capacity", n * 100 >= (Unbounded ? maxcap : cap) * 95 ? "1" : "0"}});
          return;
        }
        emit(ptr, n, 0, pending);
        S.drained = false;
        S.drain_request = false;
      }
    }
    if (pending)
    {
      commit_all();
    }
    S.producer_done = true;
  }

  // one read pass as the backend does it: up to m records, then one commit_read
  int pass(int64_t m)
  {
    int nread = 0;
    for (int64_t i = 0; i < m && E->violation_tag.empty(); ++i)
    {
      std::byte* ptr;
      if constexpr (Unbounded)
      {
        auto rr = q->prepare_read();
        ptr = rr.read_pos;
        if (rr.allocation)
        {
          ++S.switches_seen;
          size_t ci = S.consumer_node;
          if (ci + 1 >= S.node_caps.size() || rr.previous_capacity != S.node_caps[ci] || rr.new_capacity != S.node_caps[ci + 1])
          {
            fail("buffer_switch_reported_wrong_capacities",
                 "consumer switched from " + std::to_string(rr.previous_capacity) + " to " + std::to_string(rr.new_capacity) +
                   " but the producer's node sequence says " + (ci + 1 < S.node_caps.size() ? std::to_string(S.node_caps[ci]) + " -> " + std::to_string(S.node_caps[ci + 1]) : std::string("no further node")));
            return nread;
          }
          ++S.consumer_node;
        }
      }
      else
      {
        ptr = q->prepare_read();
      }
      if (!ptr)
      {
        break;
      }
      if (!plain_access(ptr, 8, false))
      {
        return nread;
      }
      uint32_t len, seq;
      std::memcpy(&len, ptr, 4);
      std::memcpy(&seq, reinterpret_cast<char*>(ptr) + 4, 4);
      if (S.fifo.empty())
      {
        fail("record_delivered_twice_or_never_written", "consumer obtained seq " + std::to_string(seq) + " but nothing is outstanding");
        return nread;
      }
      Rec front = S.fifo.front();
      if (seq != front.seq || len != front.len)
      {
        fail("record_lost_duplicated_reordered_or_torn", "consumer obtained (seq " + std::to_string(seq) + ", len " + std::to_string(len) +
                                                            ") but the oldest outstanding record is (seq " + std::to_string(front.seq) +
                                                            ", len " + std::to_string(front.len) + ")");
        return nread;
      }
      if (!front.committed)
      {
        fail("record_visible_before_its_commit", "seq " + std::to_string(seq) + " was obtained by the consumer before commit_write");
        return nread;
      }
      if (len > 8 && !plain_access(reinterpret_cast<char*>(ptr) + 8, len - 8, false))
      {
        return nread;
      }
      for (uint32_t k = 8; k < len; ++k)
      {
        if (reinterpret_cast<uint8_t*>(ptr)[k] != pattern_byte(seq, k))
        {
          fail("record_bytes_corrupted", "seq " + std::to_string(seq) + " byte " + std::to_string(k));
          return nread;
        }
      }
      if constexpr (Unbounded)
      {
        q->finish_read(len);
      }
      else
      {
        q->finish_read(static_cast<typename Q::integer_type>(len));
      }
      S.Rf += len;
      S.fifo.pop_front();
      ++S.records_read;
      ++nread;
    }
    if (nread)
    {
      q->commit_read();
    }
    return nread;
  }

  void serve_drain()
  {
    // drain exactly as the backend does, then go idle (bare polls) until the producer has made its request
    int guard = 0;
    while (!S.fifo.empty() && E->violation_tag.empty() && ++guard < 2000)
    {
      if (pass(1000) == 0)
      {
        yield_now();
      }
    }
    if (!S.fifo.empty())
    {
      return;
    }
    S.drained = true;
    guard = 0;
    while (S.drain_request && E->violation_tag.empty() && ++guard < 100000)
    {
      (void)q->empty(); // an idle poll: an atomic load, hence a scheduling point
    }
  }

  void consumer()
  {
    for (auto const& op : c.ops)
    {
      if (!E->violation_tag.empty())
      {
        return;
      }
      if (S.drain_request && !S.drained)
      {
        serve_drain();
      }
      if (op.who != 1)
      {
        continue;
      }
      if (op.k == C_PASS)
      {
        pass(op.a);
      }
      else if (op.k == C_EMPTY)
      {
        (void)q->empty();
      }
    }
    // final drain: everything committed must come out, in order
    int idle = 0;
    int guard = 0;
    bool asked_empty = false;
    while (E->violation_tag.empty() && ++guard < 200000)
    {
      if (S.drain_request && !S.drained)
      {
        serve_drain();
        continue;
      }
      if (S.producer_done && S.fifo.empty())
      {
        break;
      }
      if (!S.producer_done && S.fifo.empty() && !S.drain_request)
      {
        // nothing outstanding: sleep until the producer did something (keeps the step budget for real work)
        uint64_t w0 = S.W;
        wait_for([this, w0] { return S.producer_done || S.drain_request || S.W != w0; });
        continue;
      }
      if (S.producer_done && !asked_empty && !S.fifo.empty() && S.fifo.front().committed)
      {
        // The question the backend asks before it stops draining or destroys a thread's context: is the queue empty?
        // The producer has stopped, so after enough polls every one of its stores is visible: "empty" is then wrong.
        asked_empty = true;
        int const polls = static_cast<int>(E->force_after) + 40;
        int said_empty = 0;
        for (int k = 0; k < polls && E->violation_tag.empty(); ++k)
        {
          if (!q->empty())
          {
            said_empty = -1;
            break;
          }
          ++said_empty;
        }
        if (said_empty == polls)
        {
          fail("empty_reported_although_committed_records_are_outstanding",
               std::to_string(S.fifo.size()) + " committed records are outstanding, the producer has stopped, and empty() returned true " +
                 std::to_string(polls) + " times in a row");
          return;
        }
      }
      if (pass(1000) == 0)
      {
        if (S.producer_done && ++idle > static_cast<int>(E->force_after) + 40)
        {
          fail("committed_record_never_delivered", std::to_string(S.fifo.size()) + " committed records are still outstanding after the producer "
                                                   "stopped and the consumer polled " + std::to_string(idle) + " times");
          return;
        }
        yield_now();
      }
      else
      {
        idle = 0;
      }
    }
  }

  // park the calling task until a harness-level condition holds (not a queue operation)
  void wait_for(std::function<bool()> pred)
  {
    if (pred())
    {
      return;
    }
    E->waiting[E->current] = pred;
    yield_now();
  }

  static void producer_entry() { self->producer(); }
  static void consumer_entry() { self->consumer(); }
};
template <class Q, bool U>
Runner<Q, U>* Runner<Q, U>::self = nullptr;

template <class Q, bool Unbounded>
Verdict run_with(Case const& c, std::function<Q*()> make)
{
  Verdict v;
  Engine eng;
  E = &eng;
  eng.rng = Rng(static_cast<uint64_t>(c.get("sched_seed", 1)));
  eng.den = static_cast<uint32_t>(c.get("den", 4));
  eng.wmm = c.get("wmm", 1) != 0;
  eng.stale_permille = static_cast<uint32_t>(c.get("stale", 300));
  eng.force_after = static_cast<uint32_t>(c.get("force_after", 3));
  {
    Runner<Q, Unbounded> R(c);
    Runner<Q, Unbounded>::self = &R;
    R.q = make();
    if constexpr (Unbounded)
    {
      R.S.node_caps.push_back(R.q->producer_capacity());
    }
    static char* stacks[NT] = {nullptr, nullptr};
    constexpr size_t STACK = 256 * 1024;
    for (int t = 0; t < NT; ++t)
    {
      if (!stacks[t])
      {
        stacks[t] = static_cast<char*>(malloc(STACK));
      }
      getcontext(&eng.task_ctx[t]);
      eng.task_ctx[t].uc_stack.ss_sp = stacks[t];
      eng.task_ctx[t].uc_stack.ss_size = STACK;
      eng.task_ctx[t].uc_link = &eng.sched_ctx;
      eng.task_done[t] = false;
    }
    makecontext(&eng.task_ctx[0], reinterpret_cast<void (*)()>(&Runner<Q, Unbounded>::producer_entry), 0);
    makecontext(&eng.task_ctx[1], reinterpret_cast<void (*)()>(&Runner<Q, Unbounded>::consumer_entry), 0);
    eng.active = true;
    int cur = static_cast<int>(eng.rng.below(2));
    uint64_t budget = static_cast<uint64_t>(c.get("budget", 2000000));
    bool out_of_budget = false;
    auto runnable = [&](int t) -> bool
    {
      if (eng.task_done[t])
      {
        return false;
      }
      if (eng.waiting[t])
      {
        if (!eng.waiting[t]())
        {
          return false;
        }
        eng.waiting[t] = nullptr;
      }
      return true;
    };
    while (eng.violation_tag.empty())
    {
      if (eng.task_done[0] && eng.task_done[1])
      {
        break;
      }
      bool r0 = runnable(0), r1 = runnable(1);
      if (!r0 && !r1)
      {
        out_of_budget = true; // both tasks wait for each other: harness-level stall, not a verdict
        break;
      }
      if (!(cur == 0 ? r0 : r1) || eng.rng.below(eng.den) == 0)
      {
        int other = 1 - cur;
        if (other == 0 ? r0 : r1)
        {
          ++eng.switches;
          cur = other;
        }
      }
      if (!(cur == 0 ? r0 : r1))
      {
        cur = 1 - cur;
      }
      eng.current = cur;
      uint64_t steps_before = eng.steps;
      swapcontext(&eng.sched_ctx, &eng.task_ctx[cur]);
      eng.current = -1;
      if (eng.steps == steps_before && eng.violation_tag.empty())
      {
        // the task returned (uc_link) without yielding: it is finished
        eng.task_done[cur] = true;
      }
      if (eng.steps > budget)
      {
        out_of_budget = true;
        break;
      }
    }
    eng.active = false;
    eng.current = -1;
    if (eng.violation_tag.empty() && !out_of_budget)
    {
      // lifetime: destroying the queue frees every buffer
      delete R.q;
      R.q = nullptr;
      if (!eng.maps.empty())
      {
        eng.violation_tag = "buffer_not_freed";
        eng.violation_detail = std::to_string(eng.maps.size()) + " queue mappings are still live after the queue was destroyed";
      }
    }
    else if (R.q)
    {
      // abandoned run: the tasks are never resumed; free what we can
      delete R.q;
      R.q = nullptr;
    }
    v.hash = eng.hash;
    if (!eng.violation_tag.empty())
    {
      v.kind = 1;
      v.tag = eng.violation_tag;
      v.detail = eng.violation_detail;
      v.fields = eng.violation_fields;
    }
    else if (out_of_budget)
    {
      v.kind = 2;
      v.tag = "step_budget";
    }
    Shared const& S = R.S;
    v.nontrivial = v.kind == 0 && eng.switches >= 2 && S.records_read >= 3;
    v.probes["records_delivered"] = S.records_read;
    v.probes["reservations_granted"] = S.grants;
    v.probes["reservations_refused"] = S.refusals;
    v.probes["oversize_requests_refused"] = S.oversize_refused + S.errors_thrown;
    v.probes["stale_loads_injected"] = eng.stale_injected;
    v.probes["task_switches"] = eng.switches;
    v.probes["deferred_commits"] = S.deferred_commits;
    v.probes["position_counter_wraps"] = S.wraps;
    if (Unbounded)
    {
      v.probes["buffer_growths"] = S.growths;
      v.probes["buffer_shrinks"] = S.shrinks;
      v.probes["consumer_buffer_switches"] = S.switches_seen;
    }
    v.probes["quiescent_reservation_checks"] = S.quiesce_checks;
    v.probes["steps"] = eng.steps;
  }
  E = nullptr;
  return v;
}

Verdict run_case(Case const& c, std::string const&)
{
  using namespace quill::detail;
  size_t cap = static_cast<size_t>(c.get("cap", 64));
  if (c.get("unbounded"))
  {
    size_t maxc = static_cast<size_t>(c.get("max", static_cast<int64_t>(cap)));
    return run_with<UnboundedSPSCQueue, true>(c, [=]() { return new UnboundedSPSCQueue(cap, maxc); });
  }
  int pct = static_cast<int>(c.get("percent", 5));
  size_t const model_cap = cap;
  cap = static_cast<size_t>(c.get("req", static_cast<int64_t>(cap))); // what the constructor is asked for
  {
    // the capacity (and with it the index mask) must be the next power of two of the request
    size_t got = 0;
    switch (c.get("type", 3))
    {
    case 0: got = BoundedSPSCQueueImpl<uint8_t>(static_cast<uint8_t>(cap)).capacity(); break;
    case 1: got = BoundedSPSCQueueImpl<uint16_t>(static_cast<uint16_t>(cap)).capacity(); break;
    case 2: got = BoundedSPSCQueueImpl<uint32_t>(static_cast<uint32_t>(cap)).capacity(); break;
    default: got = BoundedSPSCQueueImpl<size_t>(cap).capacity(); break;
    }
    if (got != model_cap)
    {
      Verdict bad;
      bad.kind = 1;
      bad.tag = "capacity_is_not_the_next_power_of_two_of_the_request";
      bad.detail = "requested " + std::to_string(cap) + ", capacity() reports " + std::to_string(got) + ", expected " + std::to_string(model_cap);
      return bad;
    }
  }
  switch (c.get("type", 3))
  {
  case 0:
    return run_with<BoundedSPSCQueueImpl<uint8_t>, false>(
      c, [=]() { return new BoundedSPSCQueueImpl<uint8_t>(static_cast<uint8_t>(cap), quill::HugePagesPolicy::Never, static_cast<uint8_t>(pct)); });
  case 1:
    return run_with<BoundedSPSCQueueImpl<uint16_t>, false>(
      c, [=]() { return new BoundedSPSCQueueImpl<uint16_t>(static_cast<uint16_t>(cap), quill::HugePagesPolicy::Never, static_cast<uint16_t>(pct)); });
  case 2:
    return run_with<BoundedSPSCQueueImpl<uint32_t>, false>(
      c, [=]() { return new BoundedSPSCQueueImpl<uint32_t>(static_cast<uint32_t>(cap), quill::HugePagesPolicy::Never, static_cast<uint32_t>(pct)); });
  default:
    return run_with<BoundedSPSCQueueImpl<size_t>, false>(
      c, [=]() { return new BoundedSPSCQueueImpl<size_t>(cap, quill::HugePagesPolicy::Never, static_cast<size_t>(pct)); });
  }
}
} // namespace simq

int main(int argc, char** argv)
{
  using namespace simq;
  bd::Engine<Case, Verdict> eng;
  eng.name = "simq";
  eng.description = "SIM-Q (real BoundedSPSCQueueImpl<T> / UnboundedSPSCQueue between a producer and a consumer fibre; seeded scheduler; "
                    "operational C++11 memory model for atomics with stale loads; byte-level happens-before race detector; FIFO model)";
  eng.gen = [](std::string const& prop, uint64_t seed, int tier) { return gen_case(prop, seed, tier); };
  eng.run = [](Case const& c, std::string const& s) { return run_case(c, s); };
  eng.sample = [](Case const& c)
  {
    std::ostringstream o;
    o << "seed=" << c.seed << " cfg{";
    for (auto const& kv : c.cfg)
    {
      if (kv.first != "sched_seed")
      {
        o << kv.first << "=" << kv.second << ",";
      }
    }
    o << "} ops[";
    size_t n = 0;
    static char const* names[] = {"P.write", "P.shrink", "P.quiesce_then_write", "C.pass", "C.empty"};
    for (auto const& op : c.ops)
    {
      if (n++ >= 16)
      {
        o << " ...+" << c.ops.size() - 16;
        break;
      }
      o << " " << names[op.k % 5] << "(" << op.a << (op.b ? "," + std::to_string(op.b) : std::string{}) << ")";
    }
    o << " ]";
    return o.str();
  };
  bd::PropInfo c01;
  c01.rule =
    "one case = one seeded run: real BoundedSPSCQueueImpl<T> (T = uint8_t/uint16_t/uint32_t/size_t; capacity 16..4096, 16..128 for uint8_t so "
    "the free-running counters wrap; reader publish threshold 0/5/25/50/100 %), 30-600 producer/consumer operations (record sizes 8..capacity+9 "
    "favouring small, half, capacity-k, capacity, and larger-than-capacity; immediate and deferred commits; read passes of 1..1000 records with "
    "one commit_read; bare empty() polls), scheduled at every atomic operation with switch probability 1/1..1/16, atomic loads returning any "
    "store that coherence and happens-before allow (stale probability 5-70 %, forced visible after 1-5 stale reads), 1 in 6 runs sequentially "
    "consistent; distinct = distinct hash over (task, location, operation, value) of all atomic events; non-trivial = >=2 task switches and >=3 records delivered";
  c01.real_components = {"BoundedSPSCQueueImpl<T> (unmodified header, std::atomic replaced textually by the model's atomic)"};
  c01.stub_components = {"both endpoints (harness tasks)", "the payload", "C++11 atomics (operational model: under-approximates the standard — seq_cst stronger, bounded store history of 8)"};
  c01.assumptions = {"the memory model under-approximates C++11: it can miss an allowed behaviour, never invent a forbidden one",
                     "the queue's own non-atomic members are touched by one side only (the SPSC contract), only payload bytes are race-checked"};
  c01.quick_runs = 100000;
  c01.thorough_runs = 5000000;
  eng.props["C01"] = c01;
  bd::PropInfo c02 = c01;
  c02.rule =
    "one case = one seeded run: real UnboundedSPSCQueue (initial capacity 64..1024, maximum = initial x 1/2/4/16, real mmap'd nodes), 30-400 "
    "operations: writes incl. larger than the current buffer (growth by one or several doublings), near the maximum (growth refused -> "
    "caller retries), larger than the maximum (must throw and leave the queue usable), shrink requests valid and invalid, read passes, empty() "
    "polls; same scheduler / memory model / race detector as C01 plus: consumer's reported switch capacities vs the producer's node sequence, "
    "capacity never above the maximum, payload only inside live mappings, atomics of deleted nodes never touched again, all mappings freed at "
    "destruction; distinct = distinct atomic-event hash; non-trivial = >=2 task switches and >=3 records delivered";
  c02.real_components = {"UnboundedSPSCQueue + its BoundedSPSCQueue nodes (unmodified headers), real mmap/munmap"};
  c02.quick_runs = 100000;
  eng.props["C02"] = c02;
  bd::PropInfo c09 = c01;
  c09.rule =
    "queue level of C09: histories as in C01/C02 in which, at seeded points, the consumer drains the queue exactly as the backend does (read "
    "passes with one commit_read each, then idle polls that find nothing) and the producer then asks for n <= capacity (unbounded: <= maximum), "
    "biased to the last 12 %, retrying more often than a stale load can persist; the state cannot change any more, so 'still refused' is an exact "
    "verdict; distinct = distinct atomic-event hash; non-trivial = >=2 task switches and >=3 records delivered";
  c09.quick_runs = 4000;
  eng.props["C09"] = c09;
  return bd::batch_main(argc, argv, eng);
}
