// destination.h — reading back what a real file sink wrote (through fresh descriptors), shared by the VM (child) and the
// judges that run in the parent. No quill headers here.
#pragma once
#include <algorithm>
#include <cstdint>
#include <dirent.h>
#include <fcntl.h>
#include <string>
#include <unistd.h>
#include <utility>
#include <vector>

namespace vs
{
inline std::string read_whole_file(std::string const& path)
{
  std::string out;
  int fd = ::open(path.c_str(), O_RDONLY);
  if (fd < 0)
  {
    return out;
  }
  char buf[65536];
  for (;;)
  {
    ssize_t n = ::read(fd, buf, sizeof(buf));
    if (n <= 0)
    {
      break;
    }
    out.append(buf, static_cast<size_t>(n));
  }
  ::close(fd);
  return out;
}

// The destination of a RotatingFileSink with index naming: <stem>.<k>.log (larger k = older) ... <stem>.log (the active file),
// read oldest first.
inline std::string read_rotating_destination(std::string const& path, int64_t* rotated_files = nullptr)
{
  size_t slash = path.rfind('/');
  std::string dir = slash == std::string::npos ? "." : path.substr(0, slash);
  std::string base = slash == std::string::npos ? path : path.substr(slash + 1);
  size_t dot = base.rfind('.');
  std::string stem = base.substr(0, dot), ext = dot == std::string::npos ? "" : base.substr(dot);
  std::vector<std::pair<long, std::string>> files;
  if (DIR* d = ::opendir(dir.c_str()))
  {
    while (struct dirent* de = ::readdir(d))
    {
      std::string n = de->d_name;
      if (n.size() > stem.size() + ext.size() + 1 && n.compare(0, stem.size() + 1, stem + ".") == 0 &&
          n.compare(n.size() - ext.size(), ext.size(), ext) == 0)
      {
        std::string mid = n.substr(stem.size() + 1, n.size() - stem.size() - 1 - ext.size());
        if (!mid.empty() && mid.find_first_not_of("0123456789") == std::string::npos)
        {
          files.emplace_back(std::stol(mid), dir + "/" + n);
        }
      }
    }
    ::closedir(d);
  }
  std::sort(files.begin(), files.end(), [](auto const& a, auto const& b) { return a.first > b.first; });
  if (rotated_files)
  {
    *rotated_files = static_cast<int64_t>(files.size());
  }
  std::string out;
  for (auto const& f : files)
  {
    out += read_whole_file(f.second);
  }
  out += read_whole_file(path);
  return out;
}

} // namespace vs
