// driver.cpp — SIM-SYS batch driver: seeds -> plans -> one forked child per run -> verdicts;
// minimisation, replay gate, known-findings matching, evidence file.
#include "../sim/sim.h"
#include "history.h"
#include "plan.h"
#include "profiles.h"
#include "runner.h"

#include <algorithm>
#include <cerrno>
#include <chrono>
#include <csignal>
#include <cstdio>
#include <cstdlib>
#include <cstring>
#include <fcntl.h>
#include <fstream>
#include <poll.h>
#include <sched.h>
#include <sstream>
#include <sys/stat.h>
#include <sys/wait.h>
#include <unistd.h>
#include <unordered_set>

namespace vs
{
// ---- provided by the quill translation units -------------------------------------------------------
void run_plan_fo0(Plan const&, History&, std::string const&);
void run_plan_fo1(Plan const&, History&, std::string const&);
void run_plan_fo2(Plan const&, History&, std::string const&);
void run_plan_fo3(Plan const&, History&, std::string const&);
void run_plan_fo4(Plan const&, History&, std::string const&);
void run_plan_fo5(Plan const&, History&, std::string const&);
void run_plan_fo6(Plan const&, History&, std::string const&);
void run_plan_fo7(Plan const&, History&, std::string const&);
void pretouch_quill();

static int g_result_fd = -1;
static Profile const* g_profile = nullptr;

static std::string esc(std::string const& s)
{
  std::string o;
  for (char c : s)
  {
    if (c == '\n')
    {
      o += "\\n";
    }
    else if (c == '\\')
    {
      o += "\\\\";
    }
    else if (static_cast<unsigned char>(c) < 32)
    {
      char b[8];
      snprintf(b, sizeof(b), "\\x%02x", static_cast<unsigned char>(c));
      o += b;
    }
    else
    {
      o += c;
    }
  }
  return o;
}

static void write_all(int fd, std::string const& s)
{
  size_t off = 0;
  while (off < s.size())
  {
    ssize_t n = ::write(fd, s.data() + off, s.size() - off);
    if (n <= 0)
    {
      if (errno == EINTR)
      {
        continue;
      }
      break;
    }
    off += static_cast<size_t>(n);
  }
}

static std::string serialize_result(Verdict const& v, RunInfoLite const& ri, uint64_t hash)
{
  std::ostringstream o;
  static char const* kinds[] = {"OK", "VIOL", "INCONC", "HARNESS"};
  o << "V " << kinds[v.kind] << " " << (v.tag.empty() ? "-" : v.tag) << "\n";
  o << "S " << ri.steps << " " << ri.switches << " " << ri.preemptions << " " << ri.vns << " " << hash << " "
    << ri.stalls_fired << " " << ri.fair_steps << " " << ri.time_jumps << " " << ri.spurious_cv << " " << ri.fwrite_faults
    << "\n";
  o << "T " << (v.nontrivial ? 1 : 0) << "\n";
  for (auto const& kv : v.probes)
  {
    o << "P " << kv.first << " " << kv.second << "\n";
  }
  for (auto const& kv : v.fields)
  {
    o << "X " << kv.first << " " << esc(kv.second) << "\n";
  }
  for (int i = 0; i < 16; ++i)
  {
    if (ri.faults_fired[i])
    {
      o << "F " << i << " " << ri.faults_fired[i] << "\n";
    }
  }
  if (!v.detail.empty())
  {
    o << "D " << esc(v.detail) << "\n";
  }
  o << "E\n";
  return o.str();
}

// called in the child, exactly once, when the run is over (normally or abandoned)
void finish_child(Plan const& plan, History const& H, RunInfoBridge const& rb)
{
  sim::Stats const& st = sim::stats();
  RunInfoLite ri;
  ri.stuck = rb.stuck;
  ri.stuck_reason = rb.stuck_reason;
  ri.completed = rb.completed;
  ri.steps = st.steps;
  ri.switches = st.switches;
  ri.preemptions = st.preemptions;
  ri.vns = st.now_ns;
  ri.stalls_fired = st.stalls_fired;
  ri.fair_steps = st.fair_steps;
  ri.time_jumps = st.time_jumps;
  ri.spurious_cv = st.spurious_cv;
  ri.fwrite_faults = sim::fwrite_faults_fired();
  for (int i = 0; i < 16; ++i)
  {
    ri.faults_fired[i] = rb.faults_fired[i];
  }
  if (rb.stuck)
  {
    std::ostringstream w;
    w << rb.stuck_reason << " |";
    for (size_t t = 0; t < H.status.size(); ++t)
    {
      OpStatus const& s = H.status[t];
      if (s.started && !s.finished)
      {
        w << " T" << t << ":" << (s.in_op ? "in" : "before") << ":" << op_name(s.op_kind) << "#" << s.op_index;
      }
    }
    ri.where = w.str();
  }
  if (getenv("SIM_DUMP"))
  {
    for (auto const& e : H.ev)
    {
      fprintf(stderr, "EV seq=%lu vt=%lu T%d type=%d a=%ld b=%ld c=%ld d=%ld s=%s\n", e.seq, e.vt, e.thread, e.type, e.a,
              e.b, e.c, e.d, esc(e.s.substr(0, 60)).c_str());
    }
  }
  Verdict v;
  if (rb.stuck_reason.rfind("harness:", 0) == 0)
  {
    v.kind = Verdict::HARNESS;
    v.tag = rb.stuck_reason;
  }
  else
  {
    v = g_profile->judge(plan, H, ri);
  }
  write_all(g_result_fd, serialize_result(v, ri, st.hash));
  _exit(0);
}

void write_pre_record(std::string const& text)
{
  std::string s = "PRE " + esc(text) + "\n";
  write_all(g_result_fd, s);
}

static void dispatch(Plan const& plan, History& H, std::string const& scratch)
{
  switch (plan.get("fo", 0) % N_FO)
  {
  case 0: run_plan_fo0(plan, H, scratch); break;
  case 1: run_plan_fo1(plan, H, scratch); break;
  case 2: run_plan_fo2(plan, H, scratch); break;
  case 3: run_plan_fo3(plan, H, scratch); break;
  case 4: run_plan_fo4(plan, H, scratch); break;
  case 5: run_plan_fo5(plan, H, scratch); break;
  case 6: run_plan_fo6(plan, H, scratch); break;
  default: run_plan_fo7(plan, H, scratch); break;
  }
}

// ---- parent side -------------------------------------------------------------------------------------
struct ChildResult
{
  Verdict v;
  uint64_t steps = 0, switches = 0, preemptions = 0, vns = 0, hash = 0, stalls = 0, fair = 0, jumps = 0, spurious = 0,
           fwrite_faults = 0;
  uint64_t faults[16] = {};
  bool have_record = false;
  int wait_status = 0;
  std::string pre;
  std::string stderr_tail;
};

static std::string unesc(std::string const& s)
{
  std::string o;
  for (size_t i = 0; i < s.size(); ++i)
  {
    if (s[i] == '\\' && i + 1 < s.size())
    {
      if (s[i + 1] == 'n')
      {
        o += '\n';
        ++i;
      }
      else if (s[i + 1] == '\\')
      {
        o += '\\';
        ++i;
      }
      else if (s[i + 1] == 'x' && i + 3 < s.size())
      {
        o += static_cast<char>(strtol(s.substr(i + 2, 2).c_str(), nullptr, 16));
        i += 3;
      }
      else
      {
        o += s[i];
      }
    }
    else
    {
      o += s[i];
    }
  }
  return o;
}

static void clean_dir(std::string const& dir)
{
  std::string cmd = "rm -rf '" + dir + "' && mkdir -p '" + dir + "'";
  if (system(cmd.c_str()) != 0)
  {
    fprintf(stderr, "cannot prepare scratch dir %s\n", dir.c_str());
    exit(2);
  }
}

static std::string tail_of_file(std::string const& path, size_t max)
{
  std::ifstream f(path);
  std::stringstream ss;
  ss << f.rdbuf();
  std::string s = ss.str();
  if (s.size() > max)
  {
    s = s.substr(s.size() - max);
  }
  return s;
}

static ChildResult run_in_child(Plan const& plan, Profile const* prof, std::string const& scratch, int watchdog_s = 120)
{
  ChildResult cr;
  // cheap clean: remove files of the previous run
  {
    std::string cmd = "rm -rf '" + scratch + "'/* 2>/dev/null";
    (void)!system(cmd.c_str());
  }
  int pfd[2];
  if (pipe(pfd) != 0)
  {
    perror("pipe");
    exit(2);
  }
  fflush(stdout);
  fflush(stderr);
  pid_t pid = fork();
  if (pid < 0)
  {
    perror("fork");
    exit(2);
  }
  if (pid == 0)
  {
    close(pfd[0]);
    g_result_fd = pfd[1];
    g_profile = prof;
    int efd = ::open((scratch + "/stderr.txt").c_str(), O_WRONLY | O_CREAT | O_TRUNC, 0644);
    if (efd >= 0)
    {
      dup2(efd, 2);
      close(efd);
    }
    History* H = new History;
    dispatch(plan, *H, scratch);
    _exit(9); // not reached: finish_child exits
  }
  close(pfd[1]);
  std::string buf;
  auto t0 = std::chrono::steady_clock::now();
  bool killed = false;
  for (;;)
  {
    struct pollfd p = {pfd[0], POLLIN, 0};
    int rc = poll(&p, 1, 1000);
    if (rc > 0)
    {
      char tmp[65536];
      ssize_t n = read(pfd[0], tmp, sizeof(tmp));
      if (n > 0)
      {
        buf.append(tmp, static_cast<size_t>(n));
        continue;
      }
      if (n == 0)
      {
        break;
      }
      if (errno == EINTR)
      {
        continue;
      }
      break;
    }
    auto el = std::chrono::duration_cast<std::chrono::seconds>(std::chrono::steady_clock::now() - t0).count();
    if (el > watchdog_s)
    {
      kill(pid, SIGKILL);
      killed = true;
      break;
    }
  }
  close(pfd[0]);
  int st = 0;
  waitpid(pid, &st, 0);
  cr.wait_status = st;
  std::istringstream in(buf);
  std::string line;
  static std::map<std::string, Verdict::Kind> const kinds = {
    {"OK", Verdict::OK}, {"VIOL", Verdict::VIOLATION}, {"INCONC", Verdict::INCONCLUSIVE}, {"HARNESS", Verdict::HARNESS}};
  while (std::getline(in, line))
  {
    if (line.size() < 1)
    {
      continue;
    }
    std::istringstream ls(line);
    std::string w;
    ls >> w;
    if (w == "V")
    {
      std::string k, tag;
      ls >> k >> tag;
      cr.v.kind = kinds.count(k) ? kinds.at(k) : Verdict::HARNESS;
      cr.v.tag = tag == "-" ? "" : tag;
    }
    else if (w == "S")
    {
      ls >> cr.steps >> cr.switches >> cr.preemptions >> cr.vns >> cr.hash >> cr.stalls >> cr.fair >> cr.jumps >>
        cr.spurious >> cr.fwrite_faults;
    }
    else if (w == "T")
    {
      int t;
      ls >> t;
      cr.v.nontrivial = t != 0;
    }
    else if (w == "P")
    {
      std::string k;
      uint64_t c;
      ls >> k >> c;
      cr.v.probes[k] = c;
    }
    else if (w == "X")
    {
      std::string k;
      ls >> k;
      std::string rest;
      std::getline(ls, rest);
      if (!rest.empty() && rest[0] == ' ')
      {
        rest.erase(0, 1);
      }
      cr.v.fields[k] = unesc(rest);
    }
    else if (w == "F")
    {
      int i;
      uint64_t c;
      ls >> i >> c;
      if (i >= 0 && i < 16)
      {
        cr.faults[i] = c;
      }
    }
    else if (w == "D")
    {
      cr.v.detail = unesc(line.substr(2));
    }
    else if (w == "PRE")
    {
      cr.pre += unesc(line.substr(4));
      cr.pre += "\n";
    }
    else if (w == "E")
    {
      cr.have_record = true;
    }
  }
  if (killed)
  {
    cr.v = Verdict{};
    cr.v.kind = Verdict::HARNESS;
    cr.v.tag = "watchdog";
    return cr;
  }
  if (!cr.have_record)
  {
    if (prof->judge_parent && !cr.pre.empty())
    {
      Verdict pv = prof->judge_parent(plan, cr.pre, st, scratch);
      // statistics of the child up to the terminal event travel in the PRE record
      size_t sp = cr.pre.find("\nstats ");
      if (sp != std::string::npos)
      {
        std::istringstream ss(cr.pre.substr(sp + 7));
        ss >> cr.steps >> cr.switches >> cr.preemptions >> cr.vns >> cr.hash >> cr.stalls;
      }
      cr.faults[13] = 1;
      cr.v = pv;
      cr.have_record = true;
      return cr;
    }
    cr.stderr_tail = tail_of_file(scratch + "/stderr.txt", 1500);
    cr.v = Verdict{};
    if (cr.stderr_tail.find("Failed to sync RdtscClock") != std::string::npos)
    {
      // the simulated schedule kept preempting RdtscClock's calibration window; quill documents
      // that timestamps are then wrong. Not a verdict about any listed property.
      cr.v.kind = Verdict::INCONCLUSIVE;
      cr.v.tag = "rdtsc_sync_failed";
      return cr;
    }
    cr.v.kind = Verdict::VIOLATION;
    if (WIFSIGNALED(st))
    {
      cr.v.tag = std::string("crash:") + strsignal(WTERMSIG(st));
      std::replace(cr.v.tag.begin(), cr.v.tag.end(), ' ', '_');
    }
    else if (WIFEXITED(st) && WEXITSTATUS(st) == 77)
    {
      cr.v.tag = "crash:sanitizer";
    }
    else
    {
      cr.v.tag = "crash:exit" + std::to_string(WIFEXITED(st) ? WEXITSTATUS(st) : -1);
    }
    // the failed assertion / sanitizer headline characterises the crash
    std::string head;
    {
      size_t p = cr.stderr_tail.find("Assertion");
      if (p == std::string::npos)
      {
        p = cr.stderr_tail.find("ERROR: AddressSanitizer");
      }
      if (p == std::string::npos)
      {
        p = cr.stderr_tail.find("runtime error");
      }
      if (p != std::string::npos)
      {
        head = cr.stderr_tail.substr(p, 200);
        size_t nl = head.find('\n');
        if (nl != std::string::npos)
        {
          head = head.substr(0, nl);
        }
      }
    }
    cr.v.fields["headline"] = head;
    cr.v.detail = "child ended without a run record; stderr tail: " + cr.stderr_tail;
  }
  return cr;
}

// ---- known findings --------------------------------------------------------------------------------------
struct KnownFinding
{
  std::string property, tag, description;
  std::map<std::string, std::string> fields;
};

static std::vector<KnownFinding> load_known_findings(std::string const& path)
{
  std::vector<KnownFinding> out;
  std::ifstream f(path);
  std::string line;
  while (std::getline(f, line))
  {
    if (line.rfind("finding:", 0) != 0)
    {
      continue;
    }
    KnownFinding k;
    std::string head = line.substr(8);
    size_t sep = head.find("::");
    if (sep != std::string::npos)
    {
      k.description = head.substr(sep + 2);
      head = head.substr(0, sep);
    }
    while (!k.description.empty() && k.description[0] == ' ')
    {
      k.description.erase(0, 1);
    }
    std::istringstream hs(head);
    std::string tok;
    while (hs >> tok)
    {
      size_t eq = tok.find('=');
      if (eq == std::string::npos)
      {
        continue;
      }
      std::string key = tok.substr(0, eq), val = tok.substr(eq + 1);
      if (key == "property")
      {
        k.property = val;
      }
      else if (key == "tag")
      {
        k.tag = val;
      }
      else
      {
        k.fields[key] = val;
      }
    }
    out.push_back(k);
  }
  return out;
}

static KnownFinding const* match_known(std::vector<KnownFinding> const& ks, std::string const& prop, Verdict const& v)
{
  for (auto const& k : ks)
  {
    if (k.property != prop || k.tag != v.tag)
    {
      continue;
    }
    bool ok = true;
    for (auto const& kv : k.fields)
    {
      auto it = v.fields.find(kv.first);
      if (it == v.fields.end() || it->second != kv.second)
      {
        ok = false;
        break;
      }
    }
    if (ok)
    {
      return &k;
    }
  }
  return nullptr;
}

// ---- minimisation ------------------------------------------------------------------------------------------
struct Minimiser
{
  Profile const* prof;
  std::string scratch;
  std::string want_tag;
  std::string want_key;
  int runs = 0;
  int budget = 300;

  bool still_fails(Plan const& p)
  {
    if (runs >= budget)
    {
      return false;
    }
    ++runs;
    ChildResult cr = run_in_child(p, prof, scratch, 60);
    if (cr.v.kind != Verdict::VIOLATION || cr.v.tag != want_tag)
    {
      return false;
    }
    if (!want_key.empty())
    {
      std::string s = cr.v.tag;
      for (auto const& f : cr.v.fields)
      {
        std::string val = f.second;
        for (auto& ch : val)
        {
          if (ch == ' ' || ch == '|' || ch == '\n')
          {
            ch = '_';
          }
        }
        s += "|" + f.first + "=" + val.substr(0, 80);
      }
      return s == want_key;
    }
    return true;
  }

  static bool structural(Op const& op)
  {
    return op.k == OP_SPAWN || op.k == OP_JOIN || op.k == OP_EXIT || op.k == OP_RAISE || op.k == OP_FAULT ||
      op.k == OP_RETURN;
  }

  Plan run(Plan p)
  {
    // 1. drop whole threads (their SPAWN / JOIN ops become no-ops in the VM)
    for (size_t t = p.threads.size(); t-- > 1;)
    {
      if (p.threads[t].empty())
      {
        continue;
      }
      Plan c = p;
      c.threads[t].clear();
      for (auto& ops : c.threads)
      {
        ops.erase(std::remove_if(ops.begin(), ops.end(),
                                 [t](Op const& o)
                                 { return (o.k == OP_SPAWN || o.k == OP_JOIN) && static_cast<size_t>(o.v[0]) == t; }),
                  ops.end());
      }
      if (still_fails(c))
      {
        p = c;
      }
    }
    // 2. ddmin over the non-structural ops of each thread
    for (size_t t = 0; t < p.threads.size(); ++t)
    {
      size_t chunk = p.threads[t].size() / 2;
      while (chunk >= 1 && runs < budget)
      {
        bool removed_any = false;
        for (size_t start = 0; start < p.threads[t].size() && runs < budget;)
        {
          Plan c = p;
          auto& ops = c.threads[t];
          size_t end = std::min(start + chunk, ops.size());
          std::vector<Op> kept;
          bool removed = false;
          for (size_t i = 0; i < ops.size(); ++i)
          {
            if (i >= start && i < end && !structural(ops[i]))
            {
              removed = true;
              continue;
            }
            kept.push_back(ops[i]);
          }
          if (!removed)
          {
            start = end;
            continue;
          }
          ops = kept;
          if (still_fails(c))
          {
            p = c;
            removed_any = true;
            // do not advance: the next chunk slid into place
          }
          else
          {
            start = end;
          }
        }
        if (!removed_any || chunk == 1)
        {
          if (chunk == 1)
          {
            break;
          }
        }
        chunk /= 2;
      }
    }
    // 3. simpler schedule: fewer preemptions
    for (int64_t den : {64, 16})
    {
      if (p.get("policy", 0) != 0 || p.get("den", 8) < den)
      {
        Plan c = p;
        c.cfg["policy"] = 0;
        c.cfg["den"] = den;
        if (still_fails(c))
        {
          p = c;
          break;
        }
      }
    }
    // 4. drop spurious wake-ups, shrink payloads
    if (p.get("spurious_cv", 0))
    {
      Plan c = p;
      c.cfg.erase("spurious_cv");
      if (still_fails(c))
      {
        p = c;
      }
    }
    {
      Plan c = p;
      bool any = false;
      for (auto& ops : c.threads)
      {
        for (auto& op : ops)
        {
          if ((op.k == OP_LOG || op.k == OP_BT_LOG) && op.v[4] > 8)
          {
            op.v[4] = 8;
            any = true;
          }
        }
      }
      if (any && still_fails(c))
      {
        p = c;
      }
    }
    return p;
  }
};

// ---- batch ---------------------------------------------------------------------------------------------------
struct Args
{
  std::string profile;
  int tier = 0;
  uint64_t seed = 1;
  int64_t runs = -1;
  int workers = 8;
  int time_s = 0;
  std::string replay;
  std::string evidence;
  std::string known = "/verif/known_findings.txt";
  std::string replay_dir = "/verif/replays";
  std::string flavour = "plain";
  bool print_plan = false;
  bool no_min = false;
  bool quiet = false;
  bool stats_only = false; // do not write evidence (selftests)
  std::string dump_hashes;
  uint64_t one = 0;
};

static std::string json_str(std::string const& s)
{
  std::string o = "\"";
  for (char c : s)
  {
    switch (c)
    {
    case '"': o += "\\\""; break;
    case '\\': o += "\\\\"; break;
    case '\n': o += "\\n"; break;
    case '\t': o += "\\t"; break;
    case '\r': o += "\\r"; break;
    default:
      if (static_cast<unsigned char>(c) < 32)
      {
        char b[8];
        snprintf(b, sizeof(b), "\\u%04x", static_cast<unsigned char>(c));
        o += b;
      }
      else
      {
        o += c;
      }
    }
  }
  o += "\"";
  return o;
}

static std::string plan_sample(Plan const& p, size_t max_ops)
{
  std::ostringstream o;
  o << "seed=" << p.seed << " cfg{";
  bool first = true;
  for (auto const& kv : p.cfg)
  {
    if (kv.first == "sched_seed")
    {
      continue;
    }
    o << (first ? "" : ",") << kv.first << "=" << kv.second;
    first = false;
  }
  o << "}";
  for (size_t t = 0; t < p.threads.size(); ++t)
  {
    o << " T" << t << "[";
    size_t n = 0;
    for (auto const& op : p.threads[t])
    {
      if (n++ >= max_ops)
      {
        o << " ...+" << (p.threads[t].size() - max_ops);
        break;
      }
      o << (n > 1 ? " " : "") << op_name(op.k);
      if (op.k == OP_LOG)
      {
        o << "(l" << op.v[0] << ",s" << op.v[1] << ",L" << op.v[2] << ",n" << op.v[4] << (op.v[5] ? ",f" : "")
          << (op.v[5] ? std::to_string(op.v[5]) : "") << ")";
      }
      else if (op.k == OP_SPAWN || op.k == OP_JOIN || op.k == OP_SLEEP || op.k == OP_FLUSH)
      {
        o << "(" << op.v[0] << ")";
      }
      else if (op.k == OP_STALL)
      {
        o << "(t" << op.v[0] << ",k" << op.v[1] << ",#" << op.v[2] << "," << op.v[3] << "ns)";
      }
    }
    o << "]";
  }
  return o.str();
}

struct Agg
{
  uint64_t evaluations = 0, ok = 0, viol = 0, inconc = 0, harness = 0, nontrivial = 0;
  uint64_t steps = 0, switches = 0, preemptions = 0, vns = 0, stalls = 0, fair = 0, jumps = 0, spurious = 0, fwrite_faults = 0;
  uint64_t faults[16] = {};
  std::map<std::string, uint64_t> probes;
  std::map<std::string, uint64_t> inconc_reasons;
  std::unordered_set<uint64_t> distinct_nt, distinct_all;
  std::map<std::string, std::vector<uint64_t>> viol_seeds; // tag -> seeds
  std::map<std::string, uint64_t> policy_mix;
  std::vector<std::string> harness_tags;
};

static int worker_main(Args const& a, Profile const* prof, int w, int wfd, std::string const& scratch, int64_t runs,
                       std::chrono::steady_clock::time_point deadline)
{
  FILE* out = fdopen(wfd, "w");
  for (int64_t i = w; i < runs; i += a.workers)
  {
    if (a.time_s > 0 && std::chrono::steady_clock::now() > deadline)
    {
      break;
    }
    uint64_t rs = splitmix(a.seed, std::hash<std::string>{}(prof->id) & 0xFFFF, static_cast<uint64_t>(i));
    Plan plan = prof->gen(rs, a.tier);
    ChildResult cr = run_in_child(plan, prof, scratch);
    std::ostringstream o;
    o << "R " << rs << " " << static_cast<int>(cr.v.kind) << " " << cr.hash << " " << (cr.v.nontrivial ? 1 : 0) << " "
      << cr.steps << " " << cr.switches << " " << cr.preemptions << " " << cr.vns << " " << cr.stalls << " " << cr.fair
      << " " << cr.jumps << " " << cr.spurious << " " << cr.fwrite_faults << " " << plan.get("policy", 0) << " "
      << (cr.v.tag.empty() ? "-" : cr.v.tag);
    o << " |";
    for (auto const& kv : cr.v.probes)
    {
      o << " " << kv.first << "=" << kv.second;
    }
    o << " |";
    for (int k = 0; k < 16; ++k)
    {
      if (cr.faults[k])
      {
        o << " " << k << "=" << cr.faults[k];
      }
    }
    o << " |";
    for (auto const& kv : cr.v.fields)
    {
      std::string val = kv.second;
      for (auto& ch : val)
      {
        if (ch == ' ' || ch == '|' || ch == '\n')
        {
          ch = '_';
        }
      }
      o << " " << kv.first << "=" << val.substr(0, 80);
    }
    o << "\n";
    fputs(o.str().c_str(), out);
    fflush(out);
  }
  fclose(out);
  return 0;
}

static char const* fault_name(int i)
{
  static char const* n[16] = {"F0", "F1_sink_write_throw", "F2_sink_flush_throw", "F3_fwrite_enospc", "F4_format_mismatch",
                              "F5_user_formatter_throw", "F6_backtrace_without_init", "F7", "F8", "F9", "F10", "F11",
                              "F12_stop_start", "F13_terminal", "F14", "F15"};
  return n[i & 15];
}

static int batch(Args const& a, Profile const* prof)
{
  auto t0 = std::chrono::steady_clock::now();
  int64_t runs = a.runs >= 0 ? a.runs : (a.tier ? prof->thorough_runs : prof->quick_runs);
  std::string root = "/dev/shm/quill-verif." + std::to_string(getpid());
  clean_dir(root);
  auto deadline = t0 + std::chrono::seconds(a.time_s > 0 ? a.time_s : 1000000);

  std::vector<int> fds;
  std::vector<pid_t> pids;
  for (int w = 0; w < a.workers; ++w)
  {
    int pfd[2];
    if (pipe(pfd) != 0)
    {
      perror("pipe");
      return 2;
    }
    fflush(stdout);
    pid_t pid = fork();
    if (pid == 0)
    {
      for (int fd : fds)
      {
        close(fd);
      }
      close(pfd[0]);
      std::string scratch = root + "/w" + std::to_string(w);
      clean_dir(scratch);
      {
        // pin the worker (and every run it forks) to one core: baton hand-offs stay core-local
        long ncpu = sysconf(_SC_NPROCESSORS_ONLN);
        cpu_set_t set;
        CPU_ZERO(&set);
        CPU_SET(static_cast<int>(w % (ncpu > 0 ? ncpu : 1)), &set);
        sched_setaffinity(0, sizeof(set), &set);
      }
      _exit(worker_main(a, prof, w, pfd[1], scratch, runs, deadline));
    }
    close(pfd[1]);
    fds.push_back(pfd[0]);
    pids.push_back(pid);
  }

  Agg g;
  FILE* hash_dump = a.dump_hashes.empty() ? nullptr : fopen(a.dump_hashes.c_str(), "w");
  std::vector<std::string> bufs(fds.size());
  std::vector<bool> open(fds.size(), true);
  size_t nopen = fds.size();
  while (nopen > 0)
  {
    std::vector<struct pollfd> pf;
    std::vector<size_t> idx;
    for (size_t i = 0; i < fds.size(); ++i)
    {
      if (open[i])
      {
        pf.push_back({fds[i], POLLIN, 0});
        idx.push_back(i);
      }
    }
    int rc = poll(pf.data(), pf.size(), 1000);
    if (rc <= 0)
    {
      continue;
    }
    for (size_t k = 0; k < pf.size(); ++k)
    {
      if (!(pf[k].revents & (POLLIN | POLLHUP)))
      {
        continue;
      }
      size_t i = idx[k];
      char tmp[65536];
      ssize_t n = read(fds[i], tmp, sizeof(tmp));
      if (n <= 0)
      {
        open[i] = false;
        --nopen;
        close(fds[i]);
        continue;
      }
      bufs[i].append(tmp, static_cast<size_t>(n));
      size_t pos;
      while ((pos = bufs[i].find('\n')) != std::string::npos)
      {
        std::string line = bufs[i].substr(0, pos);
        bufs[i].erase(0, pos + 1);
        if (line.rfind("R ", 0) != 0)
        {
          continue;
        }
        std::istringstream ls(line.substr(2));
        uint64_t rs, hash, steps, sw, pre, vns, stalls, fair, jumps, spur, fwf;
        int kind, nt, policy;
        std::string tag;
        ls >> rs >> kind >> hash >> nt >> steps >> sw >> pre >> vns >> stalls >> fair >> jumps >> spur >> fwf >> policy >> tag;
        ++g.evaluations;
        g.steps += steps;
        g.switches += sw;
        g.preemptions += pre;
        g.vns += vns;
        g.stalls += stalls;
        g.fair += fair;
        g.jumps += jumps;
        g.spurious += spur;
        g.fwrite_faults += fwf;
        g.policy_mix[policy ? "pct" : "random_walk"]++;
        if (hash_dump)
        {
          fprintf(hash_dump, "%lu %lu %d %s %lu %lu\n", rs, hash, kind, tag.c_str(), steps, sw);
        }
        g.distinct_all.insert(hash);
        switch (kind)
        {
        case Verdict::OK:
          ++g.ok;
          if (nt)
          {
            ++g.nontrivial;
            g.distinct_nt.insert(hash);
          }
          break;
        case Verdict::VIOLATION:
        {
          ++g.viol;
          // violation class = tag + characterising fields (reported and matched against known findings separately)
          std::string key = tag;
          size_t b3 = line.rfind('|');
          if (b3 != std::string::npos)
          {
            std::istringstream fs3(line.substr(b3 + 1));
            std::string kv3;
            while (fs3 >> kv3)
            {
              key += "|" + kv3;
            }
          }
          g.viol_seeds[key].push_back(rs);
          break;
        }
        case Verdict::INCONCLUSIVE:
          ++g.inconc;
          g.inconc_reasons[tag]++;
          break;
        default:
          ++g.harness;
          g.harness_tags.push_back(tag + "@" + std::to_string(rs));
          break;
        }
        std::string rest;
        std::getline(ls, rest);
        size_t bar1 = rest.find('|');
        size_t bar2 = rest.find('|', bar1 + 1);
        size_t bar3 = rest.find('|', bar2 + 1);
        if (bar1 != std::string::npos && bar2 != std::string::npos)
        {
          std::istringstream ps(rest.substr(bar1 + 1, bar2 - bar1 - 1));
          std::string kv;
          while (ps >> kv)
          {
            size_t eq = kv.find('=');
            if (eq != std::string::npos)
            {
              g.probes[kv.substr(0, eq)] += strtoull(kv.c_str() + eq + 1, nullptr, 10);
            }
          }
          std::istringstream fs(rest.substr(bar2 + 1, bar3 == std::string::npos ? std::string::npos : bar3 - bar2 - 1));
          while (fs >> kv)
          {
            size_t eq = kv.find('=');
            if (eq != std::string::npos)
            {
              int fi = atoi(kv.c_str());
              if (fi >= 0 && fi < 16)
              {
                g.faults[fi] += strtoull(kv.c_str() + eq + 1, nullptr, 10);
              }
            }
          }
        }
      }
    }
  }
  if (hash_dump)
  {
    fclose(hash_dump);
  }
  bool worker_failed = false;
  for (pid_t pid : pids)
  {
    int st = 0;
    waitpid(pid, &st, 0);
    if (!WIFEXITED(st) || WEXITSTATUS(st) != 0)
    {
      worker_failed = true;
    }
  }

  // ---- violations: minimise, gate, report ----------------------------------------------------------------
  std::vector<KnownFinding> known = load_known_findings(a.known);
  int exit_code = 0;
  uint64_t unlisted = 0;
  std::vector<std::string> known_seen;
  std::string scratch = root + "/min";
  clean_dir(scratch);
  if (system(("mkdir -p '" + a.replay_dir + "'").c_str()) != 0)
  {
    return 2;
  }
  auto sig_of = [](Verdict const& v) -> std::string
  {
    std::string s = v.tag;
    for (auto const& f : v.fields)
    {
      std::string val = f.second;
      for (auto& ch : val)
      {
        if (ch == ' ' || ch == '|' || ch == '\n')
        {
          ch = '_';
        }
      }
      s += "|" + f.first + "=" + val.substr(0, 80);
    }
    return s;
  };
  for (auto const& kv : g.viol_seeds)
  {
    std::string const& key = kv.first;
    std::string const tag = key.substr(0, key.find('|'));
    uint64_t rs = kv.second.front();
    Plan plan = prof->gen(rs, a.tier);
    ChildResult first = run_in_child(plan, prof, scratch);
    // (a crash is one class whatever signal ends the process: see sim/batch_driver.h)
    auto same_class = [](std::string const& x, std::string const& y)
    { return x == y || (x.rfind("crash:", 0) == 0 && y.rfind("crash:", 0) == 0); };
    if (first.v.kind != Verdict::VIOLATION || !same_class(sig_of(first.v), key))
    {
      printf("HARNESS-ERROR: violation %s of seed %lu did not reproduce on re-execution (got kind=%d tag=%s)\n", tag.c_str(),
             rs, static_cast<int>(first.v.kind), first.v.tag.c_str());
      exit_code = 2;
      continue;
    }
    Plan minp = plan;
    if (!a.no_min)
    {
      Minimiser mz{prof, scratch, tag};
      mz.want_key = key;
      minp = mz.run(plan);
    }
    // gate: two more executions in fresh processes, same class, identical hashes
    ChildResult g1 = run_in_child(minp, prof, scratch);
    ChildResult g2 = run_in_child(minp, prof, scratch);
    bool const is_crash = key.rfind("crash:", 0) == 0;
    if (g1.v.kind != Verdict::VIOLATION || g2.v.kind != Verdict::VIOLATION || !same_class(sig_of(g1.v), key) ||
        !same_class(sig_of(g2.v), key) || (!is_crash && g1.hash != g2.hash))
    {
      printf("HARNESS-ERROR: minimised plan for %s (seed %lu) does not replay deterministically\n", tag.c_str(), rs);
      exit_code = 2;
      continue;
    }
    KnownFinding const* kf = match_known(known, prof->id, g1.v);
    std::string safe_tag = key;
    for (auto& c : safe_tag)
    {
      if (!isalnum(static_cast<unsigned char>(c)) && c != '_' && c != '-')
      {
        c = '_';
      }
    }
    std::string path = a.replay_dir + "/" + prof->id + "-" + safe_tag + "-" + std::to_string(rs) + ".replay";
    {
      std::ofstream f(path);
      f << minp.to_text();
      f << "# violation " << tag << "\n";
      for (auto const& fkv : g1.v.fields)
      {
        f << "# field " << fkv.first << "=" << esc(fkv.second) << "\n";
      }
      f << "# detail " << esc(g1.v.detail) << "\n";
      f << "# ops " << minp.op_count() << " (original " << plan.op_count() << "), seeds with this class in the batch: "
        << kv.second.size() << "\n";
    }
    if (kf)
    {
      printf("KNOWN-FINDING: property=%s %s [tag=%s seeds=%zu replay=%s]\n", prof->id.c_str(), kf->description.c_str(),
             tag.c_str(), kv.second.size(), path.c_str());
      known_seen.push_back(tag);
    }
    else
    {
      printf("VIOLATION property=%s replay=%s\n", prof->id.c_str(), path.c_str());
      printf("  class=%s seeds_in_batch=%zu minimised_ops=%zu detail=%s\n", tag.c_str(), kv.second.size(), minp.op_count(),
             g1.v.detail.substr(0, 600).c_str());
      ++unlisted;
      if (exit_code == 0)
      {
        exit_code = 1;
      }
    }
  }
  if (g.harness > 0 || worker_failed)
  {
    printf("HARNESS-ERROR: %lu runs ended in a harness error (%s)\n", g.harness,
           g.harness_tags.empty() ? "worker died" : g.harness_tags.front().c_str());
    exit_code = 2;
  }

  double wall = std::chrono::duration<double>(std::chrono::steady_clock::now() - t0).count();

  // ---- evidence ---------------------------------------------------------------------------------------------
  if (!a.evidence.empty() && !a.stats_only)
  {
    std::ostringstream o;
    o << "{\n";
    o << " \"property_id\": " << json_str(prof->id) << ",\n";
    o << " \"tier\": " << json_str(a.tier ? "thorough" : "quick") << ",\n";
    o << " \"seed\": " << a.seed << ",\n";
    o << " \"level\": " << json_str(prof->level) << ",\n";
    o << " \"coverage\": {\n";
    o << "  \"evaluations\": " << g.evaluations << ",\n";
    o << "  \"distinct_nontrivial\": " << g.distinct_nt.size() << ",\n";
    o << "  \"rule\": " << json_str(prof->rule) << ",\n";
    o << "  \"samples\": [";
    for (int i = 0; i < 3 && i < runs; ++i)
    {
      uint64_t rs = splitmix(a.seed, std::hash<std::string>{}(prof->id) & 0xFFFF, static_cast<uint64_t>(i));
      Plan p = prof->gen(rs, a.tier);
      o << (i ? ", " : "") << json_str(plan_sample(p, 14));
    }
    o << "],\n";
    o << "  \"engine\": \"SIM-SYS (real quill library under a seeded one-baton scheduler, virtual clock, one forked child per run)\",\n";
    o << "  \"flavour\": " << json_str(a.flavour) << ",\n";
    o << "  \"runs_ok\": " << g.ok << ", \"runs_nontrivial\": " << g.nontrivial << ", \"runs_inconclusive\": " << g.inconc
      << ", \"runs_violating\": " << g.viol << ",\n";
    o << "  \"distinct_event_hashes_all_runs\": " << g.distinct_all.size() << ",\n";
    o << "  \"runs_per_hour\": " << static_cast<uint64_t>(wall > 0 ? static_cast<double>(g.evaluations) * 3600.0 / wall : 0) << ",\n";
    o << "  \"seeds\": \"run i uses splitmix(VERIF_SEED=" << a.seed << ", property, i), i in [0," << g.evaluations << ")\",\n";
    o << "  \"simulated_ns_total\": " << g.vns << ",\n";
    o << "  \"steps_total\": " << g.steps << ", \"switches_total\": " << g.switches << ", \"preemptions_total\": " << g.preemptions
      << ", \"fair_phase_steps_total\": " << g.fair << ", \"time_jumps_total\": " << g.jumps << ",\n";
    o << "  \"fault_fired\": {\"F7_F8_stall\": " << g.stalls << ", \"F10_spurious_condvar_wakeup\": " << g.spurious
      << ", \"F3_fwrite_enospc\": " << g.fwrite_faults;
    for (int i = 0; i < 16; ++i)
    {
      if (g.faults[i] && i != 3)
      {
        o << ", " << json_str(fault_name(i)) << ": " << g.faults[i];
      }
    }
    o << "},\n";
    o << "  \"probes\": {";
    {
      bool first = true;
      for (auto const& kv : g.probes)
      {
        o << (first ? "" : ", ") << json_str(kv.first) << ": " << kv.second;
        first = false;
      }
    }
    o << "},\n";
    o << "  \"policy_mix\": {";
    {
      bool first = true;
      for (auto const& kv : g.policy_mix)
      {
        o << (first ? "" : ", ") << json_str(kv.first) << ": " << kv.second;
        first = false;
      }
    }
    o << "},\n";
    o << "  \"inconclusive_reasons\": {";
    {
      bool first = true;
      for (auto const& kv : g.inconc_reasons)
      {
        o << (first ? "" : ", ") << json_str(kv.first) << ": " << kv.second;
        first = false;
      }
    }
    o << "},\n";
    o << "  \"known_findings_seen\": [";
    for (size_t i = 0; i < known_seen.size(); ++i)
    {
      o << (i ? ", " : "") << json_str(known_seen[i]);
    }
    o << "],\n";
    o << "  \"real_components\": [";
    for (size_t i = 0; i < prof->real_components.size(); ++i)
    {
      o << (i ? ", " : "") << json_str(prof->real_components[i]);
    }
    o << "],\n  \"stub_components\": [";
    for (size_t i = 0; i < prof->stub_components.size(); ++i)
    {
      o << (i ? ", " : "") << json_str(prof->stub_components[i]);
    }
    o << "]\n },\n";
    o << " \"assumptions\": [";
    for (size_t i = 0; i < prof->assumptions.size(); ++i)
    {
      o << (i ? ", " : "") << json_str(prof->assumptions[i]);
    }
    o << "],\n";
    o << " \"wall_s\": " << wall << ",\n";
    o << " \"violations\": " << unlisted << "\n";
    o << "}\n";
    std::ofstream f(a.evidence);
    f << o.str();
  }

  if (!a.quiet)
  {
    printf("%s %s: runs=%lu ok=%lu nontrivial=%lu distinct_nontrivial=%zu inconclusive=%lu violating=%lu harness=%lu "
           "steps=%lu switches=%lu wall=%.1fs (%.0f runs/s)\n",
           prof->id.c_str(), a.tier ? "thorough" : "quick", g.evaluations, g.ok, g.nontrivial, g.distinct_nt.size(), g.inconc,
           g.viol, g.harness, g.steps, g.switches, wall, wall > 0 ? static_cast<double>(g.evaluations) / wall : 0.0);
    for (auto const& kv : g.probes)
    {
      printf("  probe %-40s %lu%s\n", kv.first.c_str(), kv.second, kv.second == 0 ? "   <-- WARNING: never hit" : "");
    }
    for (auto const& kv : g.inconc_reasons)
    {
      printf("  inconclusive %-40s %lu\n", kv.first.c_str(), kv.second);
    }
    printf("  faults fired: stall=%lu spurious_cv=%lu fwrite=%lu", g.stalls, g.spurious, g.fwrite_faults);
    for (int i = 0; i < 16; ++i)
    {
      if (g.faults[i] && i != 3)
      {
        printf(" %s=%lu", fault_name(i), g.faults[i]);
      }
    }
    printf("\n");
  }
  (void)!system(("rm -rf '" + root + "'").c_str());
  return exit_code;
}

static int replay(Args const& a)
{
  std::ifstream f(a.replay);
  if (!f)
  {
    fprintf(stderr, "cannot read %s\n", a.replay.c_str());
    return 2;
  }
  std::stringstream ss;
  ss << f.rdbuf();
  Plan p;
  std::string err;
  if (!Plan::from_text(ss.str(), p, err))
  {
    fprintf(stderr, "bad replay file: %s\n", err.c_str());
    return 2;
  }
  Profile const* prof = find_profile(p.profile);
  if (!prof)
  {
    fprintf(stderr, "unknown profile %s\n", p.profile.c_str());
    return 2;
  }
  std::string root = "/dev/shm/quill-verif." + std::to_string(getpid());
  clean_dir(root);
  ChildResult cr = run_in_child(p, prof, root);
  static char const* kinds[] = {"OK", "VIOLATION", "INCONCLUSIVE", "HARNESS-ERROR"};
  printf("replay %s: verdict=%s class=%s hash=%016lx steps=%lu switches=%lu\n", a.replay.c_str(), kinds[cr.v.kind],
         cr.v.tag.c_str(), cr.hash, cr.steps, cr.switches);
  for (auto const& kv : cr.v.fields)
  {
    printf("  %s = %s\n", kv.first.c_str(), kv.second.c_str());
  }
  if (!cr.v.detail.empty())
  {
    printf("  detail: %s\n", cr.v.detail.c_str());
  }
  printf("%s", p.to_text().c_str());
  if (getenv("SIM_TRACE") || getenv("SIM_DUMP"))
  {
    (void)!system(("cp '" + root + "/stderr.txt' /tmp/sim_trace.txt").c_str());
    printf("trace written to /tmp/sim_trace.txt\n");
  }
  (void)!system(("rm -rf '" + root + "'").c_str());
  if (cr.v.kind == Verdict::VIOLATION)
  {
    printf("VIOLATION property=%s replay=%s\n", prof->id.c_str(), a.replay.c_str());
    return 1;
  }
  return cr.v.kind == Verdict::OK ? 0 : (cr.v.kind == Verdict::INCONCLUSIVE ? 0 : 2);
}
} // namespace vs

int main(int argc, char** argv)
{
  using namespace vs;
  Args a;
  if (char const* s = getenv("VERIF_SEED"))
  {
    a.seed = strtoull(s, nullptr, 10);
  }
  if (char const* s = getenv("VERIF_TIER"))
  {
    a.tier = std::string(s) == "thorough" ? 1 : 0;
  }
  for (int i = 1; i < argc; ++i)
  {
    std::string k = argv[i];
    auto val = [&]() -> std::string { return i + 1 < argc ? argv[++i] : ""; };
    if (k == "--profile") a.profile = val();
    else if (k == "--tier") a.tier = val() == "thorough" ? 1 : 0;
    else if (k == "--seed") a.seed = strtoull(val().c_str(), nullptr, 10);
    else if (k == "--runs") a.runs = atoll(val().c_str());
    else if (k == "--workers") a.workers = atoi(val().c_str());
    else if (k == "--time") a.time_s = atoi(val().c_str());
    else if (k == "--replay") a.replay = val();
    else if (k == "--evidence") a.evidence = val();
    else if (k == "--known") a.known = val();
    else if (k == "--replay-dir") a.replay_dir = val();
    else if (k == "--flavour") a.flavour = val();
    else if (k == "--print-plan") a.print_plan = true;
    else if (k == "--no-min") a.no_min = true;
    else if (k == "--quiet") a.quiet = true;
    else if (k == "--stats-only") a.stats_only = true;
    else if (k == "--dump-hashes") a.dump_hashes = val();
    else if (k == "--one") a.one = strtoull(val().c_str(), nullptr, 10);
    else
    {
      fprintf(stderr, "unknown argument %s\n", k.c_str());
      return 2;
    }
  }
  setvbuf(stdout, nullptr, _IOLBF, 0);
  pretouch_quill();
  if (!a.replay.empty())
  {
    return replay(a);
  }
  Profile const* prof = find_profile(a.profile);
  if (!prof)
  {
    fprintf(stderr, "unknown profile '%s'\n", a.profile.c_str());
    return 2;
  }
  if (a.print_plan)
  {
    Plan p = prof->gen(a.seed, a.tier);
    printf("%s", p.to_text().c_str());
    return 0;
  }
  if (a.one)
  {
    Plan p = prof->gen(a.one, a.tier);
    std::string root = "/dev/shm/quill-verif." + std::to_string(getpid());
    if (char const* sfx = getenv("SIM_SCRATCH_SUFFIX")) // debugging aid: the outcome must not depend on the path
    {
      root += sfx;
    }
    clean_dir(root);
    ChildResult cr = run_in_child(p, prof, root);
    static char const* kinds[] = {"OK", "VIOLATION", "INCONCLUSIVE", "HARNESS-ERROR"};
    printf("%s", p.to_text().c_str());
    printf("run seed %lu: verdict=%s class=%s hash=%016lx steps=%lu switches=%lu fair=%lu vns=%lu\n", a.one, kinds[cr.v.kind],
           cr.v.tag.c_str(), cr.hash, cr.steps, cr.switches, cr.fair, cr.vns);
    for (auto const& kv : cr.v.fields)
    {
      printf("  %s = %s\n", kv.first.c_str(), kv.second.c_str());
    }
    printf("  detail: %s\n", cr.v.detail.c_str());
    (void)!system(("rm -rf '" + root + "'").c_str());
    return 0;
  }
  if (a.workers < 1)
  {
    a.workers = 1;
  }
  return batch(a, prof);
}

#ifdef SIM_ASAN
// Classify sanitizer hits: a report ends the child with exit code 77 (crash:sanitizer); leak checking would flood
// (every run is abandoned with threads parked), so it is off.
extern "C" __attribute__((used)) char const* __asan_default_options() { return "exitcode=77:detect_leaks=0:abort_on_error=0"; }
extern "C" __attribute__((used)) char const* __ubsan_default_options() { return "halt_on_error=1:exitcode=77:print_stacktrace=0"; }
#endif
