// fo_info.h — the same menu as data, for generators and oracles (no quill include needed)
#pragma once
#include <cstddef>
namespace vs
{
struct FOInfo
{
  bool unbounded;
  bool dropping;
  size_t init_cap;
  size_t max_cap; // the configured maximum (== init_cap for bounded)
  unsigned retry_ns;
  // the largest buffer the queue can actually reach: init_cap * 2^k <= max_cap (a record between this and max_cap is
  // neither accepted nor rejected with an error; DESIGN.md, Corrections 6)
  size_t reach_cap() const
  {
    size_t c = init_cap;
    while (c * 2 <= max_cap)
    {
      c *= 2;
    }
    return c;
  }
};
constexpr int N_FO = 8;
inline FOInfo fo_info(int k)
{
  static FOInfo const t[N_FO] = {{true, false, 256, 2048, 800},    {true, false, 1024, 16384, 0},
                                 {true, false, 131072, 2147483648ull, 800}, {true, true, 512, 3000, 800},
                                 {false, false, 512, 512, 0},      {false, false, 1024, 1024, 800},
                                 {false, true, 512, 512, 800},     {false, true, 4096, 4096, 800}};
  return t[k % N_FO];
}
} // namespace vs
