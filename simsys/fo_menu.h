// fo_menu.h — the compile-time FrontendOptions menu (DESIGN.md section 3). One is chosen per run.
#pragma once
namespace vs
{
template <int K>
struct FOSel;
#define VS_FO(K, QT, INIT, RETRY, MAXCAP)                                                          \
  template <>                                                                                      \
  struct FOSel<K>                                                                                  \
  {                                                                                                \
    static constexpr quill::QueueType queue_type = quill::QueueType::QT;                           \
    static constexpr size_t initial_queue_capacity = INIT;                                         \
    static constexpr uint32_t blocking_queue_retry_interval_ns = RETRY;                            \
    static constexpr size_t unbounded_queue_max_capacity = MAXCAP;                                 \
    static constexpr quill::HugePagesPolicy huge_pages_policy = quill::HugePagesPolicy::Never;     \
  };
VS_FO(0, UnboundedBlocking, 256, 800, 2048)
VS_FO(1, UnboundedBlocking, 1024, 0, 16384)
VS_FO(2, UnboundedBlocking, 131072, 800, 2147483648ull)
VS_FO(3, UnboundedDropping, 512, 800, 3000) // a maximum that is not a power of two: the largest buffer is 2048
VS_FO(4, BoundedBlocking, 512, 0, 0)
VS_FO(5, BoundedBlocking, 1024, 800, 0)
VS_FO(6, BoundedDropping, 512, 800, 0)
VS_FO(7, BoundedDropping, 4096, 800, 0)
#undef VS_FO
} // namespace vs
