// gen_common.h — building blocks shared by the profile generators (swarm-style configuration).
#pragma once
#include "fo_info.h"
#include "plan.h"

namespace vs
{
// upper bound of the encoded size of a generic statement on top of its payload
constexpr size_t RECORD_OVERHEAD = 96;

inline void gen_sched(Plan& p, Rng& r)
{
  p.cfg["sched_seed"] = static_cast<int64_t>(r.next() >> 1);
  if (r.chance(1, 6))
  {
    p.cfg["policy"] = 1; // PCT
    p.cfg["pct_depth"] = r.range(1, 3);
    p.cfg["pct_horizon"] = r.pick<int64_t>({2000, 8000, 30000});
  }
  else
  {
    p.cfg["policy"] = 0;
    p.cfg["den"] = r.pick<int64_t>({2, 4, 4, 8, 8, 16, 16, 64});
  }
  p.cfg["delta_ns"] = r.pick<int64_t>({1, 3, 7, 25, 90});
  if (r.chance(1, 5))
  {
    p.cfg["spurious_cv"] = r.pick<int64_t>({20, 100, 300});
  }
}

inline void gen_backend(Plan& p, Rng& r, bool allow_long_sleep = false)
{
  int64_t soft = r.pick<int64_t>({1, 2, 4, 8, 16, 64, 4096});
  int64_t hard = soft;
  int up = static_cast<int>(r.below(5));
  for (int i = 0; i < up && hard < 256; ++i)
  {
    hard *= 2;
  }
  if (r.chance(1, 5))
  {
    hard = 32768;
    if (hard < soft)
    {
      hard = soft;
    }
  }
  p.cfg["soft"] = soft;
  p.cfg["hard"] = hard;
  p.cfg["transit_cap"] = r.pick<int64_t>({1, 2, 3, 4, 5, 12, 16, 100, 256}); // (quill rounds it up to a power of two)
  p.cfg["grace_us"] = r.pick<int64_t>({0, 1, 1, 20, 1000});
  p.cfg["sleep_ns"] = r.pick<int64_t>({0, 500, 100000, 100000});
  if (allow_long_sleep && r.chance(1, 8))
  {
    p.cfg["sleep_ns"] = 60000000000ll;
  }
  if (p.cfg["sleep_ns"] == 0 && r.chance(1, 2))
  {
    p.cfg["yield_idle"] = 1;
  }
  p.cfg["flush_ms"] = r.pick<int64_t>({0, 200});
}

// keep the virtual time scale coherent: a 1 ms grace period with 1 ns ticks would cost a million
// steps per batch; TSC loggers need ticks well below the 833 ns resync lag limit of RdtscClock
inline void fix_timescale(Plan& p)
{
  bool tsc = false;
  for (int i = 0; i < p.get("nloggers", 1); ++i)
  {
    if (p.get("logger" + std::to_string(i) + "_clock", 0) == 1)
    {
      tsc = true;
    }
  }
  if (tsc)
  {
    if (p.get("grace_us", 1) > 20)
    {
      p.cfg["grace_us"] = 20;
    }
    if (p.get("delta_ns", 7) > 25)
    {
      p.cfg["delta_ns"] = 25;
    }
  }
  if (p.get("grace_us", 1) >= 1000 && p.get("delta_ns", 7) < 90)
  {
    p.cfg["delta_ns"] = 90;
  }
  if (p.get("grace_us", 1) >= 20 && p.get("delta_ns", 7) < 7)
  {
    p.cfg["delta_ns"] = 7;
  }
}

// swarm option: drive the backend through ManualBackendWorker from a simulated thread instead of quill's own thread
inline void gen_backend_mode(Plan& p, Rng& r, uint32_t one_in = 5)
{
  if (r.chance(1, one_in))
  {
    p.cfg["backend_mode"] = 1;
    p.cfg["manual_gap_ns"] = r.pick<int64_t>({0, 200, 1000, 5000});
    p.cfg["manual_gap_every"] = r.pick<int64_t>({1, 3, 10});
    p.cfg["manual_poll_all"] = r.chance(1, 2) ? 1 : 0;
  }
}

inline size_t max_total_record(int fo)
{
  FOInfo f = fo_info(fo);
  // stay below capacity - 5 % (the reader publishes its position in 5 % batches; see C09)
  return f.reach_cap() * 94 / 100;
}

inline size_t max_payload(int fo)
{
  size_t t = max_total_record(fo);
  size_t cap = t > RECORD_OVERHEAD + 8 ? t - RECORD_OVERHEAD : 8;
  return cap > 6000 ? 6000 : cap;
}

inline size_t gen_size(Rng& r, int fo)
{
  size_t mp = max_payload(fo);
  FOInfo f = fo_info(fo);
  uint32_t c = r.below(100);
  if (c < 55)
  {
    return r.below(25);
  }
  if (c < 80)
  {
    size_t lo = f.init_cap / 8, hi = f.init_cap / 2;
    if (hi > mp)
    {
      hi = mp;
    }
    if (lo > hi)
    {
      lo = hi;
    }
    return static_cast<size_t>(r.range(static_cast<int64_t>(lo), static_cast<int64_t>(hi)));
  }
  if (c < 92)
  {
    // around the initial capacity: forces growth of an unbounded queue / blocking of a bounded one
    size_t hi = f.init_cap < mp ? f.init_cap : mp;
    size_t lo = hi > 64 ? hi - 64 : 0;
    return static_cast<size_t>(r.range(static_cast<int64_t>(lo), static_cast<int64_t>(hi)));
  }
  size_t lo = mp > 32 ? mp - 32 : 0;
  return static_cast<size_t>(r.range(static_cast<int64_t>(lo), static_cast<int64_t>(mp)));
}

inline void gen_loggers_and_sinks(Plan& p, Rng& r, int max_loggers = 3, int max_sinks = 3, bool tsc_allowed = true)
{
  int nsinks = static_cast<int>(r.range(1, max_sinks));
  int nloggers = static_cast<int>(r.range(1, max_loggers));
  p.cfg["nsinks"] = nsinks;
  p.cfg["nloggers"] = nloggers;
  for (int i = 0; i < nloggers; ++i)
  {
    int64_t mask = static_cast<int64_t>(r.range(1, (1 << nsinks) - 1));
    p.cfg["logger" + std::to_string(i) + "_sinks"] = mask;
    int64_t clock = 0;
    if (tsc_allowed && r.chance(1, 4))
    {
      clock = 1;
    }
    p.cfg["logger" + std::to_string(i) + "_clock"] = clock;
  }
}

// insert `n` stall ops at random positions; target -1 = backend
inline void gen_stalls(Plan& p, Rng& r, int n, int64_t typical_ns)
{
  for (int i = 0; i < n; ++i)
  {
    size_t t = r.below(static_cast<uint32_t>(p.threads.size()));
    auto& ops = p.threads[t];
    size_t pos = ops.empty() ? 0 : r.below(static_cast<uint32_t>(ops.size()));
    int64_t target = r.chance(1, 2) ? -1 : static_cast<int64_t>(r.below(static_cast<uint32_t>(p.threads.size())));
    int64_t kind = r.pick<int64_t>({0, 0, 5 /*K_CLOCK*/, 1 /*K_LOAD*/, 15 /*K_SINK*/, 2 /*K_STORE*/});
    int64_t nth = r.range(1, 40);
    int64_t dur = typical_ns * r.pick<int64_t>({1, 2, 5, 20, 100}) + r.range(0, 500);
    ops.insert(ops.begin() + static_cast<long>(pos), Op{OP_STALL, target, kind, nth, dur});
  }
}
} // namespace vs
