// history.h — the recorded history of one simulated run and the run record handed to the driver.
#pragma once
#include <cstdint>
#include <map>
#include <string>
#include <vector>

namespace vs
{
enum EvT : int
{
  EV_LOG_INVOKE = 1, // a=id b=logger c=level d=kind(0 plain,1 backtrace,2 dynamic,3 typed,4 macro)  s=expected message
  EV_LOG_RETURN,     // a=id b=result (1 enqueued, 0 dropped, -1 below logger level, -2 threw)  c=queue capacity after
  EV_FLUSH_INVOKE,   // a=logger
  EV_FLUSH_RETURN,   // a=logger
  EV_SINK_WRITE,     // a=sink b=id (-1 unknown) c=timestamp d=level  s=message s2=statement
  EV_SINK_FLUSH,     // a=sink
  EV_SINK_DTOR,      // a=sink
  EV_SINK_THROW,     // a=sink b=id c=0 write / 1 flush
  EV_NOTIFIER,       // s=text
  EV_FILE_SNAP,      // a=sink s=file content (taken in the step in which flush_log returned / at end)
  EV_THREAD_START,   // a=plan thread b=sim id
  EV_THREAD_END,     // a=plan thread
  EV_STOP_INVOKE,
  EV_STOP_RETURN,
  EV_START_RETURN,   // a=backend sim id
  EV_SET_LEVEL,      // a=logger b=level c=0 invoke / 1 return
  EV_SINK_LEVEL,     // a=sink b=level
  EV_ADD_FILTER,     // a=sink b=kind c=param
  EV_CREATE_LOGGER,  // a=slot b=sink mask c=0 invoke/1 return d=generation
  EV_REMOVE_LOGGER,  // a=slot b=blocking c=0 invoke/1 return d=generation
  EV_BT_INIT,        // a=logger b=capacity c=flush level d=0 invoke/1 return
  EV_BT_FLUSH,       // a=logger d=0 invoke/1 return
  EV_CTX_COUNT,      // a=contexts retained b=live threads that logged
  EV_SHRINK,         // a=requested b=capacity before c=capacity after
  EV_FORMATTER_RAN,  // a=sim thread id that ran a user formatter b=0 deferred/1 direct c=id
  EV_ALLOC,          // a=id b=mallocs c=mmaps d=capacity changed
  EV_GET_LOGGER,     // a=slot b=found c=same object as created
  EV_TERMINAL,       // a=op kind b=arg
  EV_ARG_EVAL,       // a=id   (argument of a macro statement was evaluated)
  EV_GET_SINK,       // a=sink b=found c=same object as the one in use
  EV_CSV,            // a=name idx b=rows  s=expected file content s2=actual file content after the writer's scope ended
  EV_NOTE            // free
};

struct Ev
{
  uint64_t seq = 0;
  uint64_t vt = 0;
  int thread = 0; // plan thread, -1 = backend / other
  int type = 0;
  int64_t a = 0, b = 0, c = 0, d = 0;
  std::string s, s2;
};

struct OpStatus
{
  int op_index = -1;
  int op_kind = 0;
  bool in_op = false;
  int sim_id = -1;
  bool started = false;
  bool finished = false;
};

struct History
{
  std::vector<Ev> ev;
  std::vector<OpStatus> status; // per plan thread
  std::vector<int> backend_ids; // sim ids of backend threads
};

struct Verdict
{
  enum Kind
  {
    OK = 0,
    VIOLATION,
    INCONCLUSIVE,
    HARNESS
  } kind = OK;
  std::string tag;                           // oracle tag: the violation class
  std::map<std::string, std::string> fields; // parameters that characterise the failure
  std::string detail;
  bool nontrivial = false;
  std::map<std::string, uint64_t> probes;
};
} // namespace vs
