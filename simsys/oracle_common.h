// oracle_common.h — the exactly-once / in-thread-order / intact delivery check shared by several
// profiles (C03 is its plain form; C06, C08, C10, C16, C17, C18, C20 restrict or extend it).
#pragma once
#include "profiles.h"

#include <functional>
#include <sstream>

namespace vs
{
inline Verdict violation(std::string tag, std::string detail, std::map<std::string, std::string> fields = {})
{
  Verdict v;
  v.kind = Verdict::VIOLATION;
  v.tag = std::move(tag);
  v.detail = std::move(detail);
  v.fields = std::move(fields);
  return v;
}

// the plan op that issued statement `id` (ids are thread * 10^6 + op index)
inline Op const* op_of(Plan const& p, int64_t id)
{
  size_t t = static_cast<size_t>(id / 1000000), i = static_cast<size_t>(id % 1000000);
  if (t < p.threads.size() && i < p.threads[t].size())
  {
    return &p.threads[t][i];
  }
  return nullptr;
}

// encoded size of a generic statement: 8 (timestamp) + 24 (metadata, logger, decoder) + arguments
//   site 0: id(8) + std::string(4+n)            site 1: id(8) + uint32(4) + string_view(4+n)
//   site 2: id(8) + c-string(n+1) + double(8) + int64(8)      site 3: id(8) + std::string(4+n) + int(4)
inline size_t encoded_size_of(Plan const& p, int64_t id)
{
  Op const* op = op_of(p, id);
  if (!op)
  {
    return 0;
  }
  size_t n = static_cast<size_t>(op->v[4]);
  switch (op->v[1] % 7)
  {
  case 1:
    return 48 + n;
  case 2:
    return 57 + n;
  case 3:
    return 48 + n;
  case 4:
    return 44 + n + 1; // dynamic level byte
  default:
    return 44 + n;
  }
}

struct DeliveryRules
{
  // must statement `is` be written to sink `sink` ? (1 yes, 0 no, -1 either is acceptable)
  std::function<int(Issued const&, int sink)> expect;
  // may an unknown (unparseable id) write appear? returns true if `msg` is acceptable
  std::function<bool(std::string const& msg)> unknown_ok;
  bool check_text = true;
  bool check_attribution = true; // formatted line, thread id, logger name, named arguments
  bool check_order = true;
  bool allow_backtrace_replay = false; // kind==1 statements are handled by the C18 oracle
  std::function<bool(Issued const&)> skip; // statements this pass does not look at (judged by another pass)
};

inline char const* level_name(int l)
{
  static char const* n[] = {"TRACE_L3", "TRACE_L2", "TRACE_L1", "DEBUG", "INFO", "NOTICE", "WARNING", "ERROR", "CRITICAL", "BACKTRACE", "NONE", "DYNAMIC"};
  return (l >= 0 && l < 12) ? n[l] : "?";
}
inline char const* level_short(int l)
{
  static char const* n[] = {"T3", "T2", "T1", "D", "I", "N", "W", "E", "C", "BT", "_", "DN"};
  return (l >= 0 && l < 12) ? n[l] : "?";
}

// The recording sink stores: statement \x1f thread_id \x1f logger_name [\x1f key=value]...
// Check the line against the logger's (or the sink's override) pattern, the thread id against the issuing
// simulated thread, the logger name, the reported level and the named arguments of the call site.
inline std::string attribution_error(Model const& m, Issued const& is, int sink, Write const& w)
{
  std::vector<std::string> f;
  {
    size_t pos = 0;
    std::string const& s = *w.stmt;
    while (true)
    {
      size_t q = s.find('\x1f', pos);
      if (q == std::string::npos)
      {
        f.push_back(s.substr(pos));
        break;
      }
      f.push_back(s.substr(pos, q - pos));
      pos = q + 1;
    }
  }
  if (f.size() < 3)
  {
    return "malformed record";
  }
  int const lvl = is.kind == 1 ? 9 : is.level;
  if (w.level != lvl)
  {
    return "reported level " + std::to_string(w.level) + " but the statement was issued with level " + std::to_string(lvl);
  }
  auto sid = m.thread_sim_id.find(is.thread);
  std::string tid = sid != m.thread_sim_id.end() && sid->second >= 0 ? std::to_string(1000 + sid->second) : std::string{};
  if (!tid.empty() && f[1] != tid)
  {
    return "thread id '" + f[1] + "' but the issuing thread is " + tid;
  }
  std::string lname = m.logger_name_at(is.logger, is.invoke_seq);
  if (!lname.empty() && f[2] != lname)
  {
    return "logger name '" + f[2] + "' expected '" + lname + "'";
  }
  std::string want;
  if (static_cast<size_t>(sink) < m.sink_override.size() && m.sink_override[static_cast<size_t>(sink)])
  {
    want = "S" + std::to_string(sink) + "|" + level_short(lvl) + "|" + *w.msg + "\n";
  }
  else
  {
    want = "L" + lname + "|" + level_name(lvl) + "|" + tid + "|" + *w.msg + "\n";
  }
  if (!lname.empty() && !tid.empty() && f[0] != want)
  {
    return "formatted line '" + f[0].substr(0, 120) + "' expected '" + want.substr(0, 120) + "'";
  }
  // named arguments: only the harness site 3 ("#{sid}# {text} {num}") has them
  size_t const nargs = f.size() - 3;
  if (is.kind == 0 && is.site == 3)
  {
    if (nargs != 3 || f[3].rfind("sid=", 0) != 0 || f[4].rfind("text=", 0) != 0 || f[5].rfind("num=", 0) != 0)
    {
      return "named arguments differ from the call site's (sid, text, num): got " + std::to_string(nargs) + " pairs";
    }
    if (f[3] != "sid=" + std::to_string(is.id))
    {
      return "named argument " + f[3] + " belongs to another statement";
    }
  }
  else if ((is.kind == 4) && is.site == 30)
  {
    if (nargs != 2 || f[3] != "mid=" + std::to_string(is.id) || f[4].rfind("mtext=", 0) != 0)
    {
      return "named arguments differ from the macro call site's (mid, mtext): got " + std::to_string(nargs) + " pairs";
    }
  }
  else if (is.kind == 3 && (is.site == 148 || is.site == 153))
  {
    // LOGJ_ family: the keys are the variable names (sid, a, sv) / (sid, a, occurred)
    std::string const sid = "sid=#" + std::to_string(is.id) + "#";
    bool ok = nargs == 3 && f[3] == sid && f[4].rfind("a=", 0) == 0 && f[5].rfind(is.site == 148 ? "sv=" : "occurred=", 0) == 0;
    if (!ok)
    {
      return "named arguments of a LOGJ statement differ from the variable names of the call site: got " + std::to_string(nargs) +
        " pairs" + (nargs ? " (first: " + f[3].substr(0, 60) + ")" : std::string{});
    }
  }
  else if (is.kind != 3 && nargs != 0)
  {
    return "statement without named arguments was delivered with " + std::to_string(nargs) + " key/value pairs (first: " + f[3].substr(0, 60) + ")";
  }
  return {};
}

// Reach measure for the backend's buffering limits (no hook in quill tells us directly): the largest number of statements
// of one thread that were accepted (log call returned) but not yet written to their first sink at some instant. A backlog
// beyond the hard limit means the limit was binding (the backend stopped reading that thread's queue with more in it);
// beyond the initial transit capacity (and within the hard limit) that the transit buffer had to grow.
inline void backlog_probes(Model const& m, Plan const& p, Verdict& v)
{
  struct E
  {
    uint64_t seq;
    int thread;
    int d;
  };
  std::vector<E> ev;
  std::map<int64_t, uint64_t> first_write;
  for (auto const& ws : m.by_sink)
  {
    for (auto const& w : ws)
    {
      auto it = first_write.find(w.id);
      if (w.id >= 0 && (it == first_write.end() || w.seq < it->second))
      {
        first_write[w.id] = w.seq;
      }
    }
  }
  for (auto const& kv : m.issued)
  {
    Issued const& is = kv.second;
    auto fw = first_write.find(is.id);
    if (is.result != 1 || is.kind == 1 || fw == first_write.end())
    {
      continue;
    }
    ev.push_back(E{is.return_seq, is.thread, +1});
    ev.push_back(E{fw->second, is.thread, -1});
  }
  std::sort(ev.begin(), ev.end(), [](E const& a, E const& b) { return a.seq < b.seq; });
  std::map<int, int64_t> cur;
  int64_t mx = 0;
  for (auto const& e : ev)
  {
    int64_t& c = cur[e.thread];
    c += e.d;
    mx = std::max(mx, c);
  }
  int64_t const hard = p.get("hard", 1 << 30), tcap = p.get("transit_cap", 1 << 30), soft = p.get("soft", 1 << 30);
  v.probes["runs_with_thread_backlog_beyond_hard_limit"] = mx > hard ? 1 : 0;
  v.probes["runs_with_thread_backlog_beyond_soft_limit"] = mx > soft ? 1 : 0;
  v.probes["runs_with_thread_backlog_beyond_initial_transit_capacity"] = mx > tcap ? 1 : 0;
}

// returns OK or the first violation found
inline Verdict check_delivery(Model const& m, DeliveryRules const& rules)
{
  for (size_t s = 0; s < m.by_sink.size(); ++s)
  {
    std::set<int64_t> seen;
    std::map<int, std::vector<int64_t>> got_by_thread; // thread -> ids in write order
    for (auto const& w : m.by_sink[s])
    {
      if (w.id < 0)
      {
        if (rules.unknown_ok && rules.unknown_ok(*w.msg))
        {
          continue;
        }
        return violation("garbled_statement", "sink " + std::to_string(s) + " received a statement without a valid id: '" +
                                                w.msg->substr(0, 120) + "'");
      }
      auto it = m.issued.find(w.id);
      if (it == m.issued.end())
      {
        return violation("unknown_id", "sink " + std::to_string(s) + " received id " + std::to_string(w.id) +
                                         " which was never issued");
      }
      Issued const& is = it->second;
      if ((rules.allow_backtrace_replay && is.kind == 1) || (rules.skip && rules.skip(is)))
      {
        continue;
      }
      if (!seen.insert(w.id).second)
      {
        return violation("duplicate", "sink " + std::to_string(s) + " received id " + std::to_string(w.id) + " twice",
                         {{"sink", std::to_string(s)}});
      }
      if (w.seq < is.invoke_seq)
      {
        return violation("visible_before_call", "id " + std::to_string(w.id) + " written before its log call started");
      }
      if (rules.check_text && *w.msg != is.expected)
      {
        return violation("text_mismatch", "id " + std::to_string(w.id) + " on sink " + std::to_string(s) + ": got '" +
                                            w.msg->substr(0, 160) + "' expected '" + is.expected.substr(0, 160) + "'");
      }
      if (rules.check_attribution)
      {
        std::string why = attribution_error(m, is, static_cast<int>(s), w);
        if (!why.empty())
        {
          return violation("wrong_attribution", "id " + std::to_string(w.id) + " on sink " + std::to_string(s) + ": " + why);
        }
      }
      int ex = rules.expect(is, static_cast<int>(s));
      if (ex == 0)
      {
        return violation("unexpected_delivery", "id " + std::to_string(w.id) + " (level " + std::to_string(is.level) +
                                                  ", logger " + std::to_string(is.logger) + ", result " +
                                                  std::to_string(is.result) + ") must not reach sink " + std::to_string(s),
                         {{"sink", std::to_string(s)}});
      }
      got_by_thread[is.thread].push_back(w.id);
    }
    // expected sequences per thread
    std::map<int, std::vector<int64_t>> want_by_thread;
    std::set<int64_t> optional;
    for (int64_t id : m.issue_order)
    {
      Issued const& is = m.issued.at(id);
      if ((rules.allow_backtrace_replay && is.kind == 1) || (rules.skip && rules.skip(is)))
      {
        continue;
      }
      int ex = rules.expect(is, static_cast<int>(s));
      if (ex == 1)
      {
        want_by_thread[is.thread].push_back(id);
      }
      else if (ex == -1)
      {
        optional.insert(id);
      }
    }
    std::set<int> threads;
    for (auto const& kv : want_by_thread)
    {
      threads.insert(kv.first);
    }
    for (auto const& kv : got_by_thread)
    {
      threads.insert(kv.first);
    }
    for (int t : threads)
    {
      std::vector<int64_t> got;
      for (int64_t id : got_by_thread[t])
      {
        if (!optional.count(id))
        {
          got.push_back(id);
        }
      }
      std::vector<int64_t> const& want = want_by_thread[t];
      if (got == want)
      {
        // also check thread order including optional ones
        if (rules.check_order)
        {
          auto const& full = got_by_thread[t];
          for (size_t i = 1; i < full.size(); ++i)
          {
            if (m.issued.at(full[i]).invoke_seq < m.issued.at(full[i - 1]).invoke_seq)
            {
              return violation("reordered", "sink " + std::to_string(s) + " thread " + std::to_string(t) + ": id " +
                                              std::to_string(full[i]) + " written after later id " + std::to_string(full[i - 1]));
            }
          }
        }
        continue;
      }
      // classify
      std::set<int64_t> gs(got.begin(), got.end());
      for (int64_t id : want)
      {
        if (!gs.count(id))
        {
          return violation("lost", "sink " + std::to_string(s) + " never received id " + std::to_string(id) + " of thread " +
                                     std::to_string(t) + "; got " + ids_to_string(got) + " want " + ids_to_string(want),
                           {{"sink", std::to_string(s)}});
        }
      }
      return violation("reordered", "sink " + std::to_string(s) + " thread " + std::to_string(t) + ": got " +
                                      ids_to_string(got) + " want " + ids_to_string(want));
    }
  }
  return Verdict{};
}
} // namespace vs
