// oracle_common.h — the exactly-once / in-thread-order / intact delivery check shared by several
// profiles (C03 is its plain form; C06, C08, C10, C16, C17, C18, C20 restrict or extend it).
#pragma once
#include "profiles.h"

#include <functional>
#include <sstream>

namespace vs
{
inline Verdict violation(std::string tag, std::string detail, std::map<std::string, std::string> fields = {})
{
  Verdict v;
  v.kind = Verdict::VIOLATION;
  v.tag = std::move(tag);
  v.detail = std::move(detail);
  v.fields = std::move(fields);
  return v;
}

// the plan op that issued statement `id` (ids are thread * 10^6 + op index)
inline Op const* op_of(Plan const& p, int64_t id)
{
  size_t t = static_cast<size_t>(id / 1000000), i = static_cast<size_t>(id % 1000000);
  if (t < p.threads.size() && i < p.threads[t].size())
  {
    return &p.threads[t][i];
  }
  return nullptr;
}

// encoded size of a generic site-0 statement: 8 (timestamp) + 24 (metadata, logger, decoder) + 8 (id) + 4 + payload
inline size_t encoded_size_of(Plan const& p, int64_t id)
{
  Op const* op = op_of(p, id);
  return op ? 44 + static_cast<size_t>(op->v[4]) : 0;
}

struct DeliveryRules
{
  // must statement `is` be written to sink `sink` ? (1 yes, 0 no, -1 either is acceptable)
  std::function<int(Issued const&, int sink)> expect;
  // may an unknown (unparseable id) write appear? returns true if `msg` is acceptable
  std::function<bool(std::string const& msg)> unknown_ok;
  bool check_text = true;
  bool check_order = true;
  bool allow_backtrace_replay = false; // kind==1 statements are handled by the C18 oracle
};

// returns OK or the first violation found
inline Verdict check_delivery(Model const& m, DeliveryRules const& rules)
{
  for (size_t s = 0; s < m.by_sink.size(); ++s)
  {
    std::set<int64_t> seen;
    std::map<int, std::vector<int64_t>> got_by_thread; // thread -> ids in write order
    for (auto const& w : m.by_sink[s])
    {
      if (w.id < 0)
      {
        if (rules.unknown_ok && rules.unknown_ok(*w.msg))
        {
          continue;
        }
        return violation("garbled_statement", "sink " + std::to_string(s) + " received a statement without a valid id: '" +
                                                w.msg->substr(0, 120) + "'");
      }
      auto it = m.issued.find(w.id);
      if (it == m.issued.end())
      {
        return violation("unknown_id", "sink " + std::to_string(s) + " received id " + std::to_string(w.id) +
                                         " which was never issued");
      }
      Issued const& is = it->second;
      if (rules.allow_backtrace_replay && is.kind == 1)
      {
        continue;
      }
      if (!seen.insert(w.id).second)
      {
        return violation("duplicate", "sink " + std::to_string(s) + " received id " + std::to_string(w.id) + " twice",
                         {{"sink", std::to_string(s)}});
      }
      if (w.seq < is.invoke_seq)
      {
        return violation("visible_before_call", "id " + std::to_string(w.id) + " written before its log call started");
      }
      if (rules.check_text && *w.msg != is.expected)
      {
        return violation("text_mismatch", "id " + std::to_string(w.id) + " on sink " + std::to_string(s) + ": got '" +
                                            w.msg->substr(0, 160) + "' expected '" + is.expected.substr(0, 160) + "'");
      }
      int ex = rules.expect(is, static_cast<int>(s));
      if (ex == 0)
      {
        return violation("unexpected_delivery", "id " + std::to_string(w.id) + " (level " + std::to_string(is.level) +
                                                  ", logger " + std::to_string(is.logger) + ", result " +
                                                  std::to_string(is.result) + ") must not reach sink " + std::to_string(s),
                         {{"sink", std::to_string(s)}});
      }
      got_by_thread[is.thread].push_back(w.id);
    }
    // expected sequences per thread
    std::map<int, std::vector<int64_t>> want_by_thread;
    std::set<int64_t> optional;
    for (int64_t id : m.issue_order)
    {
      Issued const& is = m.issued.at(id);
      if (rules.allow_backtrace_replay && is.kind == 1)
      {
        continue;
      }
      int ex = rules.expect(is, static_cast<int>(s));
      if (ex == 1)
      {
        want_by_thread[is.thread].push_back(id);
      }
      else if (ex == -1)
      {
        optional.insert(id);
      }
    }
    std::set<int> threads;
    for (auto const& kv : want_by_thread)
    {
      threads.insert(kv.first);
    }
    for (auto const& kv : got_by_thread)
    {
      threads.insert(kv.first);
    }
    for (int t : threads)
    {
      std::vector<int64_t> got;
      for (int64_t id : got_by_thread[t])
      {
        if (!optional.count(id))
        {
          got.push_back(id);
        }
      }
      std::vector<int64_t> const& want = want_by_thread[t];
      if (got == want)
      {
        // also check thread order including optional ones
        if (rules.check_order)
        {
          auto const& full = got_by_thread[t];
          for (size_t i = 1; i < full.size(); ++i)
          {
            if (m.issued.at(full[i]).invoke_seq < m.issued.at(full[i - 1]).invoke_seq)
            {
              return violation("reordered", "sink " + std::to_string(s) + " thread " + std::to_string(t) + ": id " +
                                              std::to_string(full[i]) + " written after later id " + std::to_string(full[i - 1]));
            }
          }
        }
        continue;
      }
      // classify
      std::set<int64_t> gs(got.begin(), got.end());
      for (int64_t id : want)
      {
        if (!gs.count(id))
        {
          return violation("lost", "sink " + std::to_string(s) + " never received id " + std::to_string(id) + " of thread " +
                                     std::to_string(t) + "; got " + ids_to_string(got) + " want " + ids_to_string(want),
                           {{"sink", std::to_string(s)}});
        }
      }
      return violation("reordered", "sink " + std::to_string(s) + " thread " + std::to_string(t) + ": got " +
                                      ids_to_string(got) + " want " + ids_to_string(want));
    }
  }
  return Verdict{};
}
} // namespace vs
