// p_c03.cpp — C03: every accepted statement reaches each sink of its logger once, in thread order.
#include "gen_common.h"
#include "oracle_common.h"
#include "profiles.h"

namespace vs
{
Plan gen_c03(uint64_t seed, int tier)
{
  Rng r(seed);
  Plan p;
  p.profile = "C03";
  p.seed = seed;
  int fo = r.pick<int>({0, 0, 1, 1, 2, 4, 4, 5});
  p.cfg["fo"] = fo;
  gen_sched(p, r);
  gen_backend(p, r);
  gen_backend_mode(p, r);
  gen_loggers_and_sinks(p, r);
  if (Rng(seed ^ 0xc10c).chance(1, 4))
  {
    // one logger takes its timestamps from a user clock source (delivery must not depend on the clock source)
    p.cfg["logger0_clock"] = 2;
  }
  fix_timescale(p);
  int nloggers = static_cast<int>(p.cfg["nloggers"]);

  int nlong = static_cast<int>(r.range(1, 4));  // including main
  int nshort = static_cast<int>(r.range(0, tier ? 6 : 4));
  int nthreads = nlong + nshort;
  p.threads.resize(static_cast<size_t>(nthreads));
  int total = static_cast<int>(r.range(10, tier ? 300 : 120));

  // statements per thread
  std::vector<int> quota(static_cast<size_t>(nthreads), 0);
  for (int t = nlong; t < nthreads; ++t)
  {
    quota[static_cast<size_t>(t)] = static_cast<int>(r.range(1, 6));
    total -= quota[static_cast<size_t>(t)];
  }
  if (total < nlong)
  {
    total = nlong;
  }
  for (int i = 0; i < total; ++i)
  {
    ++quota[r.below(static_cast<uint32_t>(nlong))];
  }

  auto gen_body = [&](int t, bool may_flush)
  {
    auto& ops = p.threads[static_cast<size_t>(t)];
    int lg_private = static_cast<int>(r.below(static_cast<uint32_t>(nloggers)));
    bool shared = r.chance(1, 2);
    for (int i = 0; i < quota[static_cast<size_t>(t)]; ++i)
    {
      int lg = shared ? static_cast<int>(r.below(static_cast<uint32_t>(nloggers))) : lg_private;
      ops.push_back(Op{OP_LOG, lg, static_cast<int64_t>(r.below(5)), r.range(0, 8), static_cast<int64_t>(r.next() >> 8),
                       static_cast<int64_t>(gen_size(r, fo)), 0});
      if (may_flush && r.chance(1, 30))
      {
        ops.push_back(Op{OP_FLUSH, lg, r.pick<int64_t>({0, 100, 100})});
      }
      if (r.chance(1, 25))
      {
        ops.push_back(Op{OP_SLEEP, r.pick<int64_t>({200, 2000, 8000})});
      }
      if (fo_info(fo).unbounded && r.chance(1, 30))
      {
        ops.push_back(Op{OP_SHRINK, static_cast<int64_t>(fo_info(fo).init_cap)});
      }
    }
  };

  for (int t = 0; t < nthreads; ++t)
  {
    gen_body(t, t < nlong);
  }
  // main spawns the long threads first, the short ones at random points of its own program
  auto& main_ops = p.threads[0];
  std::vector<Op> prefix;
  for (int t = 1; t < nlong; ++t)
  {
    prefix.push_back(Op{OP_SPAWN, t});
  }
  main_ops.insert(main_ops.begin(), prefix.begin(), prefix.end());
  for (int t = nlong; t < nthreads; ++t)
  {
    size_t pos = static_cast<size_t>(nlong - 1) + r.below(static_cast<uint32_t>(main_ops.size() - static_cast<size_t>(nlong - 1) + 1));
    main_ops.insert(main_ops.begin() + static_cast<long>(pos), Op{OP_SPAWN, t});
  }
  for (int t = 1; t < nthreads; ++t)
  {
    main_ops.push_back(Op{OP_JOIN, t});
  }
  if (r.chance(1, 2))
  {
    gen_stalls(p, r, static_cast<int>(r.range(1, 3)), 2000);
  }
  if (r.chance(1, 3))
  {
    p.cfg["final_flush"] = 0; // Backend::stop()'s drain is then the only thing that delivers the tail
  }
  return p;
}

Verdict judge_c03(Plan const& p, History const& h, RunInfoLite const& ri)
{
  Verdict v;
  if (ri.stuck || !ri.completed)
  {
    v.kind = Verdict::INCONCLUSIVE;
    v.tag = "did_not_finish:" + ri.stuck_reason;
    v.detail = ri.where;
    return v;
  }
  Model m = Model::build(p, h);
  // a blocking queue never discards: a log call that passed the level check returns true (or throws for a record larger
  // than an unbounded queue's maximum), whatever the state of the queue
  if (!fo_info(static_cast<int>(p.get("fo", 0))).dropping)
  {
    for (auto const& kv : m.issued)
    {
      if (kv.second.result == 0)
      {
        return violation("statement_discarded_by_a_blocking_queue",
                         "the log call of id " + std::to_string(kv.first) + " returned false (encoded size " +
                           std::to_string(encoded_size_of(p, kv.first)) + ")");
      }
    }
  }
  DeliveryRules rules;
  rules.expect = [&m](Issued const& is, int sink) -> int
  {
    if (is.result != 1)
    {
      return 0;
    }
    return ((m.mask_of_logger_at(is.logger, is.invoke_seq) >> sink) & 1) ? 1 : 0;
  };
  v = check_delivery(m, rules);
  if (v.kind != Verdict::OK)
  {
    return v;
  }
  // non-trivial: at least two threads had accepted statements and the scheduler preempted somebody
  std::set<int> threads;
  uint64_t accepted = 0;
  for (auto const& kv : m.issued)
  {
    if (kv.second.result == 1)
    {
      threads.insert(kv.second.thread);
      ++accepted;
    }
  }
  v.nontrivial = threads.size() >= 2 && ri.preemptions >= 1 && accepted >= 5;
  v.probes["accepted_statements"] = accepted;
  backlog_probes(m, p, v);
  v.probes["threads_logging"] = threads.size();
  uint64_t grow = 0, blocked = 0;
  for (auto const& n : m.notifier)
  {
    if (n.find("Allocated a new SPSC queue") != std::string::npos)
    {
      ++grow;
    }
    if (n.find("blocking occurrences") != std::string::npos)
    {
      ++blocked;
    }
  }
  v.probes["queue_growth_notices"] = grow;
  v.probes["blocking_notices"] = blocked;
  uint64_t exited_with_pending = 0;
  {
    // a spawned thread ended before its last statement was written
    std::map<int, uint64_t> end_seq;
    for (auto const& e : h.ev)
    {
      if (e.type == EV_THREAD_END)
      {
        end_seq[static_cast<int>(e.a)] = e.seq;
      }
    }
    std::set<int> counted;
    for (auto const& w : m.all_writes)
    {
      auto it = m.issued.find(w.id);
      if (it == m.issued.end())
      {
        continue;
      }
      auto es = end_seq.find(it->second.thread);
      if (es != end_seq.end() && w.seq > es->second && counted.insert(it->second.thread).second)
      {
        ++exited_with_pending;
      }
    }
  }
  v.probes["threads_exited_with_pending"] = exited_with_pending;
  return v;
}

void register_c03(std::vector<Profile>& v)
{
  Profile p;
  p.id = "C03";
  p.title = "Every accepted statement reaches each sink of its logger once, in thread order";
  p.gen = gen_c03;
  p.judge = judge_c03;
  p.rule =
    "one case = one seeded plan (queue type/capacity, backend limits, loggers x sinks, 1-4 long-lived + 0-6 short-lived "
    "threads, 10-300 statements of mixed sizes, stall faults) executed under one seeded schedule; distinct = distinct "
    "event hash over all yield points; non-trivial = >=2 threads with accepted statements, >=5 statements, >=1 preemption";
  p.real_components = {"LoggerImpl::log_statement", "Bounded/UnboundedSPSCQueue", "ThreadContextManager",
                       "BackendWorker (real backend thread)", "TransitEventBuffer", "PatternFormatter", "LoggerManager/SinkManager"};
  p.stub_components = {"sinks (RecordingSink, a user Sink subclass)", "clock (virtual)", "thread scheduling (simulator)"};
  p.assumptions = {"atomics are sequentially consistent in SIM-SYS (memory-model effects are covered by SIM-Q for the queues)",
                   "record sizes stay below capacity-6% (larger ones are the subject of C09)"};
  p.quick_runs = 20000;
  p.thorough_runs = 400000;
  v.push_back(p);
}

} // namespace vs
