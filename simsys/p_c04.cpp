// p_c04.cpp — C04: async-formatted message equals formatting the arguments at the call site.
// p_c11 (same file): a steady-state log call neither allocates nor formats on the calling thread.
#include "gen_common.h"
#include "oracle_common.h"
#include "profiles.h"

namespace vs
{
constexpr int N_TYPED = 58;

static Plan gen_typed(uint64_t seed, int tier, char const* prof)
{
  Rng r(seed);
  Plan p;
  p.profile = prof;
  p.seed = seed;
  bool c11_profile = std::string(prof) == "C11";
  // C04 also runs on dropping queues: a dropped statement must not disturb the encoding of the next one
  int fo = c11_profile ? r.pick<int>({0, 0, 1, 1, 2}) : r.pick<int>({0, 0, 1, 1, 2, 3, 6, 7});
  p.cfg["fo"] = fo;
  gen_sched(p, r);
  gen_backend(p, r);
  gen_backend_mode(p, r);
  gen_loggers_and_sinks(p, r, 2, 2, true);
  fix_timescale(p);
  int nloggers = static_cast<int>(p.cfg["nloggers"]);
  int nthreads = static_cast<int>(r.range(1, 3));
  p.threads.resize(static_cast<size_t>(nthreads));
  bool c11 = std::string(prof) == "C11";
  // "the configured non-printable-character sanitisation": the library default, a stricter user callback, or none (vm.h)
  p.cfg["printable_mode"] = Rng(seed ^ 0x5a17).pick<int64_t>({0, 0, 1, 1, 2});
  for (int t = 0; t < nthreads; ++t)
  {
    auto& ops = p.threads[static_cast<size_t>(t)];
    if (c11 && r.chance(1, 2))
    {
      ops.push_back(Op{OP_PREALLOC});
    }
    if (c11 && r.chance(1, 3))
    {
      // "a statement whose encoded size fits in the thread's current queue buffer": one that fills the drained buffer exactly
      // (or almost) must not make the queue grow. Site 0 encodes to 44 + payload bytes; the queue still has its initial capacity.
      int lg0 = static_cast<int>(r.below(static_cast<uint32_t>(nloggers)));
      ops.push_back(Op{OP_LOG, lg0, 0, 4, static_cast<int64_t>(r.next() >> 8), 5, 0});
      ops.push_back(Op{OP_FLUSH, lg0, 100});
      int64_t const cap0 = static_cast<int64_t>(fo_info(fo).init_cap);
      ops.push_back(Op{OP_LOG, lg0, 0, 4, static_cast<int64_t>(r.next() >> 8), cap0 - 44 - r.pick<int64_t>({0, 0, 0, 1, 8, cap0 / 20}), 0});
      ops.push_back(Op{OP_FLUSH, lg0, 100});
    }
    int n = static_cast<int>(r.range(3, tier ? 60 : 40));
    for (int i = 0; i < n; ++i)
    {
      int lg = static_cast<int>(r.below(static_cast<uint32_t>(nloggers)));
      ops.push_back(Op{OP_LOG_TYPED, lg, static_cast<int64_t>(r.below(N_TYPED)), 4, static_cast<int64_t>(r.next() >> 8), 0, 0});
      if (r.chance(1, 12))
      {
        // generic statements in between: mixed record kinds in the same stream
        ops.push_back(Op{OP_LOG, lg, static_cast<int64_t>(r.below(5)), r.range(2, 8), static_cast<int64_t>(r.next() >> 8),
                         static_cast<int64_t>(gen_size(r, fo) % 300), 0});
      }
      if (r.chance(1, 25))
      {
        ops.push_back(Op{OP_FLUSH, lg, 100});
      }
      if (r.chance(1, 30))
      {
        ops.push_back(Op{OP_SLEEP, r.pick<int64_t>({300, 3000})});
      }
    }
  }
  for (int t = 1; t < nthreads; ++t)
  {
    p.threads[0].insert(p.threads[0].begin(), Op{OP_SPAWN, t});
    p.threads[0].push_back(Op{OP_JOIN, t});
  }
  if (r.chance(1, 2))
  {
    gen_stalls(p, r, static_cast<int>(r.range(1, 3)), 3000); // delays decoding relative to the caller's mutation
  }
  return p;
}

Plan gen_c04(uint64_t seed, int tier) { return gen_typed(seed, tier, "C04"); }
Plan gen_c11(uint64_t seed, int tier) { return gen_typed(seed, tier, "C11"); }

static Verdict delivery_part(Plan const& p, History const& h, RunInfoLite const& ri, Model& m, Verdict& v)
{
  bool const dropping = fo_info(static_cast<int>(p.get("fo", 0))).dropping;
  if (ri.stuck || !ri.completed)
  {
    v.kind = Verdict::INCONCLUSIVE;
    v.tag = "did_not_finish:" + ri.stuck_reason;
    v.detail = ri.where;
    return v;
  }
  m = Model::build(p, h);
  DeliveryRules rules;
  rules.expect = [&m, dropping](Issued const& is, int sink) -> int
  {
    if (is.result != 1)
    {
      return 0;
    }
    if (!((m.mask_of_logger_at(is.logger, is.invoke_seq) >> sink) & 1))
    {
      return 0;
    }
    // the real macros do not return whether a dropping queue accepted the statement: it may be missing, but if it
    // is delivered it must be intact and in order
    return (dropping && is.kind == 3) ? -1 : 1;
  };
  return check_delivery(m, rules);
}

Verdict judge_c04(Plan const& p, History const& h, RunInfoLite const& ri)
{
  Verdict v;
  Model m;
  Verdict d = delivery_part(p, h, ri, m, v);
  if (d.kind != Verdict::OK)
  {
    if (d.kind == Verdict::VIOLATION && d.tag == "text_mismatch")
    {
      // which call site?
      size_t pid = d.detail.find("id ");
      int64_t id = pid == std::string::npos ? -1 : std::atoll(d.detail.c_str() + pid + 3);
      auto it = m.issued.find(id);
      d.tag = "message_differs_from_call_site_formatting";
      d.fields["typed_site"] = it != m.issued.end() ? std::to_string(it->second.site) : "?";
    }
    return d;
  }
  std::set<int> sites;
  uint64_t typed = 0, written_after_mutation = 0;
  for (auto const& kv : m.issued)
  {
    if (kv.second.kind == 3)
    {
      ++typed;
      sites.insert(kv.second.site);
    }
  }
  // the schedule decided whether the backend decoded before or after the caller overwrote its arguments
  for (auto const& w : m.all_writes)
  {
    auto it = m.issued.find(w.id);
    if (it != m.issued.end() && it->second.kind == 3 && w.seq > it->second.return_seq)
    {
      ++written_after_mutation;
    }
  }
  uint64_t grow = 0;
  for (auto const& n : m.notifier)
  {
    if (n.find("Allocated a new SPSC queue") != std::string::npos)
    {
      ++grow;
    }
  }
  v.nontrivial = typed >= 3 && written_after_mutation >= 1;
  v.probes["typed_statements"] = typed;
  v.probes["distinct_call_sites_in_run"] = sites.size();
  v.probes["written_after_the_arguments_were_overwritten"] = written_after_mutation;
  v.probes["queue_growth_notices"] = grow;
  return v;
}

Verdict judge_c11(Plan const& p, History const& h, RunInfoLite const& ri)
{
  Verdict v;
  Model m;
  Verdict d = delivery_part(p, h, ri, m, v);
  if (d.kind != Verdict::OK)
  {
    if (d.kind == Verdict::VIOLATION)
    {
      // C11 says nothing about delivery: a run whose statements are lost, duplicated or garbled (another property's
      // business) cannot be judged for allocations and formatting threads — inconclusive, not a C11 alarm
      d.kind = Verdict::INCONCLUSIVE;
      d.tag = "delivery_broken:" + d.tag;
    }
    return d;
  }
  std::set<int> backend(h.backend_ids.begin(), h.backend_ids.end());
  uint64_t measured = 0, excused_first = 0, excused_growth = 0, excluded_types = 0, deferred_on_backend = 0, direct_on_caller = 0;
  // per thread: drained = flush_log() returned and the thread has not logged since (its queue is empty and, the reader
  // position being published when a pass drains a queue, all of its capacity is free)
  std::map<int, bool> drained;
  std::map<int64_t, bool> drained_at_invoke;
  uint64_t exact_fit = 0;
  for (auto const& e : h.ev)
  {
    if (e.type == EV_FLUSH_RETURN)
    {
      drained[e.thread] = true;
    }
    else if (e.type == EV_LOG_INVOKE)
    {
      drained_at_invoke[e.a] = drained[e.thread];
      drained[e.thread] = false;
    }
    if (e.type == EV_ALLOC)
    {
      bool first = e.d & 1, grew = e.d & 2, c11ok = e.d & 4;
      int64_t const cap_before = e.d >> 8;
      if (!c11ok)
      {
        ++excluded_types;
        continue;
      }
      if (first)
      {
        ++excused_first;
        continue;
      }
      if (grew)
      {
        // growth is excused unless the statement certainly fitted: a generic statement of known encoded size, not larger
        // than the capacity, issued on a drained queue
        auto it = m.issued.find(e.a);
        size_t const enc = (it != m.issued.end() && it->second.kind == 0) ? encoded_size_of(p, e.a) : 0;
        if (enc != 0 && drained_at_invoke[e.a] && static_cast<int64_t>(enc) <= cap_before)
        {
          return violation("queue_grew_for_a_statement_that_fitted",
                           "id " + std::to_string(e.a) + ": encoded size " + std::to_string(enc) + " on a drained queue of capacity " +
                             std::to_string(cap_before) + ", yet the capacity changed (" + std::to_string(e.b) + " heap, " +
                             std::to_string(e.c) + " mmap allocations on the calling thread)");
        }
        ++excused_growth;
        continue;
      }
      if (drained_at_invoke[e.a] && cap_before > 0)
      {
        auto it = m.issued.find(e.a);
        if (it != m.issued.end() && it->second.kind == 0 && static_cast<int64_t>(encoded_size_of(p, e.a)) * 100 >= cap_before * 94)
        {
          ++exact_fit;
        }
      }
      ++measured;
      if (e.b != 0 || e.c != 0)
      {
        auto it = m.issued.find(e.a);
        return violation("steady_state_log_call_allocated",
                         "id " + std::to_string(e.a) + ": " + std::to_string(e.b) + " heap and " + std::to_string(e.c) +
                           " mmap allocations on the calling thread although the queue capacity did not change",
                         {{"typed_site", it != m.issued.end() ? std::to_string(it->second.site) : "?"}});
      }
    }
    else if (e.type == EV_FORMATTER_RAN)
    {
      bool on_backend = backend.count(static_cast<int>(e.a)) != 0;
      if (e.b == 0)
      {
        if (!on_backend)
        {
          return violation("deferred_formatter_ran_on_the_calling_thread",
                           "a user formatter of a deferred-format type ran on simulated thread " + std::to_string(e.a) +
                             " which is not the backend thread");
        }
        ++deferred_on_backend;
      }
      else
      {
        if (on_backend)
        {
          return violation("direct_formatter_ran_on_the_backend_thread", "thread " + std::to_string(e.a));
        }
        ++direct_on_caller;
      }
    }
  }
  v.nontrivial = measured >= 3;
  v.probes["steady_state_calls_measured"] = measured;
  v.probes["excused_first_call_of_thread"] = excused_first;
  v.probes["excused_queue_capacity_changed"] = excused_growth;
  v.probes["statements_filling_a_drained_queue_to_94_100_percent"] = exact_fit;
  v.probes["excluded_by_documented_design"] = excluded_types;
  v.probes["deferred_formatters_seen_on_backend"] = deferred_on_backend;
  v.probes["direct_formatters_seen_on_caller"] = direct_on_caller;
  return v;
}

void register_c04(std::vector<Profile>& v)
{
  Profile p;
  p.id = "C04";
  p.title = "Async-formatted message equals formatting the arguments at the call site";
  p.gen = gen_c04;
  p.judge = judge_c04;
  p.rule =
    "one case = one seeded plan: 1-3 threads x 3-60 statements drawn from a compiled pool of 58 typed call sites (8 of them through the other macro families: LOGV_, LOGJ_, _LIMIT, _LIMIT_EVERY_N, _TAGS, runtime metadata, LOGV_DYNAMIC; arithmetic extremes, NaN/inf, "
    "enum, pointers, C strings incl. null/empty, char arrays incl. unterminated, std::string/string_view incl. embedded NUL and non-printable "
    "bytes, quill/std containers, optional, pair, tuple, chrono, filesystem path, nested containers, deferred- and direct-format user types, "
    "12 and 14 C strings sharing the size cache) through the real LOG_INFO macro; the expected text is fmtquill::format at the call site (+ "
    "sanitisation); arguments are overwritten and destroyed right after the call while the scheduler decides when the backend decodes; small "
    "unbounded queues force growth mid-stream; quill's own size asserts are enabled; distinct = distinct event hash; non-trivial = >=3 typed "
    "statements of which >=1 was written after its arguments were overwritten";
  p.real_components = {"Codec<T> specialisations incl. quill/std/*", "DeferredFormatCodec / DirectFormatCodec", "LoggerImpl::log_statement (size pass, encode)",
                       "BackendWorker decode + format + sanitize", "queues incl. growth"};
  p.stub_components = {"recording sinks", "clock (virtual)", "scheduling (simulator)"};
  p.assumptions = {"the value space is sampled by a seeded generator (ordinary generation); the simulator contributes control of when the copy is consumed relative to "
                   "the caller's mutation and of record placement / growth histories",
                   "null char const*: call-site formatting is undefined, the expected text is the empty string"};
  p.quick_runs = 16000;
  p.thorough_runs = 300000;
  v.push_back(p);
}

void register_c11(std::vector<Profile>& v)
{
  Profile p;
  p.id = "C11";
  p.title = "A steady-state log call neither allocates nor formats on the calling thread";
  p.gen = gen_c11;
  p.judge = judge_c11;
  p.rule =
    "one case = one seeded plan over the same 58 typed call sites restricted by flag to the property's listed types (incl. exactly 12 C strings); "
    "interposed malloc/calloc/realloc/memalign/mmap are counted per simulated thread between entry to and return from each real LOG_INFO call; a "
    "count must be 0 unless it is the thread's first call or the thread's queue capacity changed across the call; every user formatter records the "
    "simulated thread it runs on (deferred: backend, direct: caller); distinct = distinct event hash; non-trivial = >=3 steady-state calls measured";
  p.real_components = {"LoggerImpl::log_statement", "Codec<T>::compute_encoded_size / encode", "InlinedVector size cache", "DeferredFormatCodec", "LOG_* macros"};
  p.stub_components = {"allocator wrapper (counts, then calls glibc)", "recording sinks", "clock (virtual)", "scheduling (simulator)"};
  p.assumptions = {"plain flavour only (ASan owns malloc)", "excluded by their documented design: direct-format types, filesystem paths, deferred types whose copy "
                   "constructor allocates, more than twelve C strings"};
  p.quick_runs = 16000;
  p.thorough_runs = 300000;
  v.push_back(p);
}
} // namespace vs
