// p_c05.cpp — C05: output is in global timestamp order when enqueues respect the grace period.
#include "gen_common.h"
#include "oracle_common.h"
#include "profiles.h"

namespace vs
{
Plan gen_c05(uint64_t seed, int tier)
{
  Rng r(seed);
  Plan p;
  p.profile = "C05";
  p.seed = seed;
  int fo = r.pick<int>({0, 1, 1, 2, 4, 5});
  p.cfg["fo"] = fo;
  gen_sched(p, r);
  gen_backend(p, r);
  gen_backend_mode(p, r);
  p.cfg["grace_us"] = r.pick<int64_t>({1, 1, 20, 20, 1000});
  p.cfg["hard"] = r.pick<int64_t>({1, 2, 4, 8, 8, 64, 32768});
  p.cfg["soft"] = r.pick<int64_t>({1, 2, 4, 8});
  if (p.cfg["soft"] > p.cfg["hard"])
  {
    p.cfg["soft"] = p.cfg["hard"];
  }
  int nsinks = static_cast<int>(r.range(1, 2));
  int nloggers = static_cast<int>(r.range(1, 3));
  p.cfg["nsinks"] = nsinks;
  p.cfg["nloggers"] = nloggers;
  int64_t clock = r.chance(1, 3) ? 1 : 0; // all loggers of a run share the clock source
  if (Rng(seed ^ 0xc10c).chance(1, 7))
  {
    // user clock source: the backend neither converts nor holds back such timestamps, so only "the statement carries the
    // value the clock returned at the start of the call" is demanded in these runs
    clock = 2;
  }
  for (int i = 0; i < nloggers; ++i)
  {
    p.cfg["logger" + std::to_string(i) + "_sinks"] = r.range(1, (1 << nsinks) - 1);
    p.cfg["logger" + std::to_string(i) + "_clock"] = clock;
  }
  // ticks small relative to the grace period, so that most statements are timely
  p.cfg["delta_ns"] = r.pick<int64_t>({1, 3, 7});
  fix_timescale(p);
  int64_t grace_ns = p.cfg["grace_us"] * 1000;

  int nlong = static_cast<int>(r.range(2, 5));
  int nfirst = static_cast<int>(r.range(0, 2));
  int nthreads = nlong + nfirst;
  p.threads.resize(static_cast<size_t>(nthreads));
  int total = static_cast<int>(r.range(10, tier ? 250 : 100));
  for (int t = 0; t < nthreads; ++t)
  {
    auto& ops = p.threads[static_cast<size_t>(t)];
    int n = t < nlong ? total / nlong + 1 : static_cast<int>(r.range(1, 3));
    for (int i = 0; i < n; ++i)
    {
      int lg = static_cast<int>(r.below(static_cast<uint32_t>(nloggers)));
      if (r.chance(1, 12))
      {
        // stall this thread between its clock read and the enqueue (the commit is its next atomic store)
        int64_t dur = grace_ns * r.pick<int64_t>({1, 1, 2, 5}) / r.pick<int64_t>({4, 1, 1, 1}) + r.range(0, 400);
        ops.push_back(Op{OP_STALL, t, clock == 1 ? 2 : r.pick<int64_t>({2, 2, 5}), 1, dur});
      }
      ops.push_back(Op{OP_LOG, lg, static_cast<int64_t>(r.below(5)), r.range(2, 8), static_cast<int64_t>(r.next() >> 8),
                       static_cast<int64_t>(gen_size(r, fo) % 300), 0});
      if (r.chance(1, 20))
      {
        ops.push_back(Op{OP_SLEEP, r.pick<int64_t>({200, 2000, grace_ns})});
      }
      if (t < nlong && r.chance(1, 40))
      {
        ops.push_back(Op{OP_FLUSH, lg, 100});
      }
    }
  }
  auto& main_ops = p.threads[0];
  std::vector<Op> prefix;
  for (int t = 1; t < nlong; ++t)
  {
    prefix.push_back(Op{OP_SPAWN, t});
  }
  main_ops.insert(main_ops.begin(), prefix.begin(), prefix.end());
  for (int t = nlong; t < nthreads; ++t)
  {
    size_t lo = static_cast<size_t>(nlong - 1);
    size_t pos = lo + r.below(static_cast<uint32_t>(main_ops.size() - lo + 1));
    std::vector<Op> frag;
    if (r.chance(2, 3) && p.cfg["sleep_ns"] < 1000000)
    {
      // see C06: stall the backend between "look for new thread contexts" and "read the clock for this pass",
      // wait until it got there, then start a thread that logs for the first time while the others keep logging
      int64_t reach = p.cfg["sleep_ns"] + p.cfg["delta_ns"] * r.pick<int64_t>({60, 200});
      int64_t dur = reach + p.cfg["delta_ns"] * r.pick<int64_t>({600, 1500, 4000}) + grace_ns * 2 + r.range(0, 2000);
      frag.push_back(Op{OP_STALL, -1, r.pick<int64_t>({5 + 256 * 1, 5 + 256 * 1, 5 + 256 * 1, 5}), r.range(1, 3), dur});
      frag.push_back(Op{OP_SLEEP, reach});
    }
    frag.push_back(Op{OP_SPAWN, t});
    if (r.chance(2, 3))
    {
      // the new thread's statements complete, then this thread logs with later timestamps
      frag.push_back(Op{OP_JOIN, t});
      int k = static_cast<int>(r.range(1, 3));
      for (int j = 0; j < k; ++j)
      {
        frag.push_back(Op{OP_LOG, static_cast<int64_t>(r.below(static_cast<uint32_t>(nloggers))), 0, r.range(2, 8),
                          static_cast<int64_t>(r.next() >> 8), static_cast<int64_t>(r.below(40)), 0});
      }
    }
    main_ops.insert(main_ops.begin() + static_cast<long>(pos), frag.begin(), frag.end());
  }
  for (int t = 1; t < nthreads; ++t)
  {
    main_ops.push_back(Op{OP_JOIN, t});
  }
  if (r.chance(1, 2) && p.cfg["sleep_ns"] < 1000000)
  {
    // quiet tail: everything drained, then a first-time thread next to a backend stall, then a later statement
    // of this thread — with an empty backlog the later statement is the only thing the stalled pass can see
    int t = nthreads;
    main_ops.push_back(Op{OP_FLUSH, 0, 100});
    int64_t reach = p.cfg["sleep_ns"] + p.cfg["delta_ns"] * r.pick<int64_t>({60, 200});
    int64_t dur = reach + p.cfg["delta_ns"] * r.pick<int64_t>({600, 1500, 4000}) + grace_ns * 2 + r.range(0, 2000);
    main_ops.push_back(Op{OP_STALL, -1, r.pick<int64_t>({5 + 256 * 1, 5 + 256 * 1, 5 + 256 * 1, 5}), r.range(1, 3), dur});
    main_ops.push_back(Op{OP_SLEEP, reach});
    main_ops.push_back(Op{OP_SPAWN, t});
    main_ops.push_back(Op{OP_JOIN, t});
    main_ops.push_back(Op{OP_LOG, static_cast<int64_t>(r.below(static_cast<uint32_t>(nloggers))), 0, r.range(2, 8),
                          static_cast<int64_t>(r.next() >> 8), static_cast<int64_t>(r.below(40)), 0});
    std::vector<Op> tops;
    int k = static_cast<int>(r.range(1, 2));
    for (int j = 0; j < k; ++j)
    {
      tops.push_back(Op{OP_LOG, static_cast<int64_t>(r.below(static_cast<uint32_t>(nloggers))), 0, r.range(2, 8),
                        static_cast<int64_t>(r.next() >> 8), static_cast<int64_t>(r.below(40)), 0});
    }
    p.threads.push_back(tops); // (main_ops is not used after this point)
  }
  // backend stalls between its reads of individual queues / inside the batch loop
  if (r.chance(1, 2))
  {
    gen_stalls(p, r, static_cast<int>(r.range(1, 3)), grace_ns);
  }
  if (r.chance(1, 3))
  {
    p.cfg["final_flush"] = 0;
  }
  return p;
}

Verdict judge_c05(Plan const& p, History const& h, RunInfoLite const& ri)
{
  Verdict v;
  if (ri.stuck || !ri.completed)
  {
    v.kind = Verdict::INCONCLUSIVE;
    v.tag = "did_not_finish:" + ri.stuck_reason;
    v.detail = ri.where;
    return v;
  }
  Model m = Model::build(p, h);
  int64_t const grace_ns = p.get("grace_us", 1) * 1000;
  int64_t const epoch = 1700000000ll * 1000000000ll;
  bool const tsc = p.get("logger0_clock", 0) == 1;
  bool const user_clock = p.get("logger0_clock", 0) == 2;
  int64_t const tol = tsc ? 3400 : 0; // RdtscClock resync window, see C06
  DeliveryRules rules;
  rules.expect = [&m](Issued const& is, int sink) -> int
  {
    if (is.result != 1)
    {
      return 0;
    }
    return ((m.mask_of_logger_at(is.logger, is.invoke_seq) >> sink) & 1) ? 1 : 0;
  };
  Verdict d = check_delivery(m, rules);
  if (d.kind != Verdict::OK)
  {
    // C05 speaks about timestamps and order, not about delivery: a run whose statements are lost or duplicated (another
    // property's business) is inconclusive here, not a C05 alarm
    d.kind = Verdict::INCONCLUSIVE;
    d.tag = "delivery_broken:" + d.tag;
    return d;
  }
  int64_t running_max = 0;
  int64_t max_id = -1;
  uint64_t timely = 0, late = 0, excused = 0, excused_tsc = 0, checked = 0, ts_mismatch = 0, user_clock_writes = 0;
  for (auto const& w : m.all_writes)
  {
    auto it = m.issued.find(w.id);
    if (it == m.issued.end())
    {
      continue;
    }
    Issued const& is = it->second;
    // the timestamp is the clock value read on the calling thread at the start of the call
    int64_t ts_v = w.ts - epoch;
    if (!tsc && (ts_v < static_cast<int64_t>(is.invoke_vt) || ts_v > static_cast<int64_t>(is.return_vt)))
    {
      return violation("timestamp_not_taken_during_the_call",
                       "id " + std::to_string(w.id) + " carries timestamp " + std::to_string(ts_v) + " but the call ran from " +
                         std::to_string(is.invoke_vt) + " to " + std::to_string(is.return_vt) + " (virtual ns)");
    }
    if (!tsc && is.first_clock != 0 && w.ts != is.first_clock)
    {
      // ... exactly: the first value the wall clock returned to the caller inside the call, also when the call then had to
      // wait for room in a blocking queue
      return violation("timestamp_is_not_the_clock_value_read_at_the_start_of_the_call",
                       "id " + std::to_string(w.id) + " carries timestamp " + std::to_string(w.ts - epoch) +
                         " but the first clock value its thread read inside the call was " + std::to_string(is.first_clock - epoch) +
                         " (the call ran from " + std::to_string(is.invoke_vt) + " to " + std::to_string(is.return_vt) + ", virtual ns)");
    }
    if (tsc && (ts_v + tol < static_cast<int64_t>(is.invoke_vt) || ts_v - tol > static_cast<int64_t>(is.return_vt)))
    {
      ++ts_mismatch;
      return violation("timestamp_not_taken_during_the_call",
                       "TSC id " + std::to_string(w.id) + " carries timestamp " + std::to_string(ts_v) + " but the call ran from " +
                         std::to_string(is.invoke_vt) + " to " + std::to_string(is.return_vt) + " (virtual ns)");
    }
    if (user_clock)
    {
      ++checked;
      ++user_clock_writes;
      continue;
    }
    bool const is_late = static_cast<int64_t>(is.return_vt) - ts_v > grace_ns;
    ++checked;
    if (w.ts < running_max)
    {
      if (is_late)
      {
        ++excused; // possibly enqueued later than the grace period after its timestamp: no demand
      }
      else if (running_max - w.ts <= tol)
      {
        ++excused_tsc;
      }
      else
      {
        Issued const& a = m.issued.at(max_id);
        return violation("timestamp_order_inversion",
                         "id " + std::to_string(w.id) + " (thread " + std::to_string(is.thread) + ", ts " + std::to_string(ts_v) +
                           ", call returned at " + std::to_string(is.return_vt) + ", i.e. enqueued within the grace period of " +
                           std::to_string(grace_ns) + " ns) was written after id " + std::to_string(max_id) + " (thread " +
                           std::to_string(a.thread) + ", ts " + std::to_string(running_max - epoch) + ")",
                         {{"first_statement_of_thread", [&]
                           {
                             for (int64_t id : m.issue_order)
                             {
                               if (m.issued.at(id).thread == is.thread)
                               {
                                 return id == is.id ? "1" : "0";
                               }
                             }
                             return "0";
                           }()}});
      }
    }
    else
    {
      running_max = w.ts;
      max_id = w.id;
    }
    if (is_late)
    {
      ++late;
    }
    else
    {
      ++timely;
    }
  }
  std::set<int> threads;
  for (auto const& kv : m.issued)
  {
    threads.insert(kv.second.thread);
  }
  v.nontrivial = threads.size() >= 2 && checked >= 5 && ri.preemptions >= 1;
  v.probes["writes_checked"] = checked;
  v.probes["user_clock_writes_checked_for_the_exact_timestamp"] = user_clock_writes;
  backlog_probes(m, p, v);
  v.probes["timely_statement_writes"] = timely;
  v.probes["late_statement_writes"] = late;
  v.probes["inversions_excused_because_late"] = excused;
  v.probes["inversions_excused_tsc_sync_tolerance"] = excused_tsc;
  (void)ts_mismatch;
  return v;
}

void register_c05(std::vector<Profile>& v)
{
  Profile p;
  p.id = "C05";
  p.title = "Output is in global timestamp order when enqueues respect the grace period";
  p.gen = gen_c05;
  p.judge = judge_c05;
  p.rule =
    "one case = one seeded plan: 2-5 logging threads + first-time threads, System or TSC clock (virtual), grace 1 us/20 us/1 ms, "
    "hard limit 1-32768, soft limit 1-8, stall faults between a thread's clock read and its commit (0.25x-5x grace) and backend "
    "stalls, under one seeded schedule; running-max oracle over all write_log calls with a conservative lateness excuse "
    "(call return time - timestamp > grace); distinct = distinct event hash; non-trivial = >=2 threads, >=5 writes checked, >=1 preemption";
  p.real_components = {"LoggerImpl::log_statement (timestamp read)", "BackendWorker ordering (ts_now cut-off, min-timestamp selection, batch stop rule)",
                       "RdtscClock (TSC runs)", "queues, transit buffers"};
  p.stub_components = {"clock and TSC (virtual: TSC = 3 x virtual ns)", "recording sinks", "scheduling (simulator)"};
  p.assumptions = {"non-decreasing clock (no backward steps are injected: they contradict C03's thread order)",
                   "TSC runs: inversions up to 3.4 us (RdtscClock's accepted resync window) are not demanded",
                   "a statement counts as possibly late when its call returned more than the grace period after its timestamp (over-estimates the enqueue time)"};
  p.quick_runs = 20000;
  p.thorough_runs = 400000;
  v.push_back(p);
}
} // namespace vs
