// p_c06.cpp — C06: flush_log() returns only after all earlier statements are written and flushed.
#include "gen_common.h"
#include "oracle_common.h"
#include "profiles.h"

namespace vs
{
Plan gen_c06(uint64_t seed, int tier)
{
  Rng r(seed);
  Plan p;
  p.profile = "C06";
  p.seed = seed;
  int fo = static_cast<int>(r.below(N_FO));
  p.cfg["fo"] = fo;
  gen_sched(p, r);
  gen_backend(p, r, true);
  gen_backend_mode(p, r);
  p.cfg["grace_us"] = r.pick<int64_t>({0, 1, 1, 1, 20});
  gen_loggers_and_sinks(p, r);
  int nsinks = static_cast<int>(p.cfg["nsinks"]);
  for (int i = 0; i < nsinks; ++i)
  {
    if (r.chance(3, 10))
    {
      p.cfg["sink" + std::to_string(i) + "_type"] = 1; // real FileSink
      p.cfg["sink" + std::to_string(i) + "_notifier"] = Rng(seed ^ static_cast<uint64_t>(0x77 + i)).chance(1, 3) ? 1 : 0; // with FileEventNotifier callbacks
      {
        // one real file sink in three is a RotatingFileSink (size limit, sometimes minutely rotation on top): the destination
        // is then the set of its files
        Rng rr(seed ^ static_cast<uint64_t>(0x9907 + i));
        if (rr.chance(1, 3))
        {
          p.cfg["sink" + std::to_string(i) + "_rotating"] = rr.pick<int64_t>({512, 700, 1024, 2048});
          p.cfg["sink" + std::to_string(i) + "_rot_minutely"] = rr.chance(1, 4) ? 1 : 0;
        }
      }
    }
  }
  fix_timescale(p);
  int nloggers = static_cast<int>(p.cfg["nloggers"]);
  bool long_sleep = p.cfg["sleep_ns"] > 1000000;

  int nlong = static_cast<int>(r.range(1, 4));
  int nfirst = static_cast<int>(r.range(0, tier ? 5 : 3));
  int nthreads = nlong + nfirst;
  p.threads.resize(static_cast<size_t>(nthreads));
  int64_t grace_ns = p.cfg["grace_us"] * 1000;

  auto log_op = [&](int lg)
  {
    return Op{OP_LOG, lg, static_cast<int64_t>(r.below(5)), r.range(2, 8), static_cast<int64_t>(r.next() >> 8),
              static_cast<int64_t>(gen_size(r, fo) % 400), 0};
  };

  for (int t = 0; t < nlong; ++t)
  {
    auto& ops = p.threads[static_cast<size_t>(t)];
    int n = static_cast<int>(r.range(3, tier ? 60 : 30));
    for (int i = 0; i < n; ++i)
    {
      int lg = static_cast<int>(r.below(static_cast<uint32_t>(nloggers)));
      uint32_t c = r.below(100);
      if (c < 68)
      {
        ops.push_back(log_op(lg));
      }
      else if (c < 86)
      {
        if (fo_info(fo).dropping && r.chance(1, 3))
        {
          // "the flush request is never discarded, even with a dropping queue": stall the backend, fill the queue (to its
          // maximum for an unbounded one) until statements are dropped, then flush
          FOInfo const fi = fo_info(fo);
          ops.push_back(Op{OP_STALL, -1, 0, r.range(1, 10), r.pick<int64_t>({20000, 100000})});
          int64_t const each = static_cast<int64_t>(fi.init_cap / 4);
          int const nfill = static_cast<int>(fi.max_cap / static_cast<size_t>(each + 44)) + 3;
          for (int k = 0; k < nfill; ++k)
          {
            ops.push_back(Op{OP_LOG, lg, 0, 4, static_cast<int64_t>(r.next() >> 8), each - r.range(0, 40), 0});
          }
        }
        ops.push_back(Op{OP_FLUSH, lg, r.pick<int64_t>({0, 100, 100, 1000})});
      }
      else if (c < 93)
      {
        ops.push_back(Op{OP_SLEEP, r.pick<int64_t>({200, 2000, 8000})});
      }
      else
      {
        ops.push_back(Op{OP_NOTIFY});
      }
    }
    if (long_sleep)
    {
      // with a 60 s backend sleep somebody has to be able to wake the backend
      ops.push_back(Op{OP_NOTIFY});
    }
  }
  // first-time threads: one to three statements, then exit (or flush)
  for (int t = nlong; t < nthreads; ++t)
  {
    auto& ops = p.threads[static_cast<size_t>(t)];
    int n = static_cast<int>(r.range(1, 3));
    for (int i = 0; i < n; ++i)
    {
      ops.push_back(log_op(static_cast<int>(r.below(static_cast<uint32_t>(nloggers)))));
    }
    if (r.chance(1, 4))
    {
      ops.push_back(Op{OP_FLUSH, 0, 100});
    }
  }
  auto& main_ops = p.threads[0];
  std::vector<Op> prefix;
  for (int t = 1; t < nlong; ++t)
  {
    prefix.push_back(Op{OP_SPAWN, t});
  }
  main_ops.insert(main_ops.begin(), prefix.begin(), prefix.end());
  // membership-change fragments: [stall the backend at a clock read] spawn a first-time thread, wait for it,
  // then flush — the statement of the new thread completed before this flush is invoked
  for (int t = nlong; t < nthreads; ++t)
  {
    size_t lo = static_cast<size_t>(nlong - 1);
    size_t pos = lo + r.below(static_cast<uint32_t>(main_ops.size() - lo + 1));
    std::vector<Op> frag;
    if (r.chance(2, 3) && !long_sleep)
    {
      // Stall the backend at a clock read that directly follows an atomic load of the same thread (the shape of
      // "look for new thread contexts, then read the clock for this pass"), give it time to get there, and only then
      // start the first-time thread. The stall covers thread start + first statement + join + the flush request.
      int64_t reach = p.cfg["sleep_ns"] + p.cfg["delta_ns"] * r.pick<int64_t>({60, 200});
      int64_t dur = reach + p.cfg["delta_ns"] * r.pick<int64_t>({600, 1500, 4000}) + (grace_ns ? grace_ns : 1000) * 2 + r.range(0, 3000);
      frag.push_back(Op{OP_STALL, -1, r.pick<int64_t>({5 + 256 * 1, 5 + 256 * 1, 5 + 256 * 1, 5, 0}), r.range(1, 3), dur});
      frag.push_back(Op{OP_SLEEP, reach});
    }
    frag.push_back(Op{OP_SPAWN, t});
    if (r.chance(3, 4))
    {
      frag.push_back(Op{OP_JOIN, t});
    }
    if (r.chance(1, 3))
    {
      frag.push_back(Op{OP_SLEEP, r.pick<int64_t>({100, 1000})});
    }
    frag.push_back(Op{OP_FLUSH, static_cast<int64_t>(r.below(static_cast<uint32_t>(nloggers))), 100});
    main_ops.insert(main_ops.begin() + static_cast<long>(pos), frag.begin(), frag.end());
  }
  for (int t = 1; t < nthreads; ++t)
  {
    main_ops.push_back(Op{OP_JOIN, t});
  }
  if (nloggers >= 2 && r.chance(1, 3))
  {
    // quiet tail: statements through one logger, that logger is removed (asynchronously; nobody else uses it any
    // more), then flush_log() through another logger — the statements logged before the call are still owed
    // "written to all of their sinks and those sinks flushed"
    int64_t victim = static_cast<int64_t>(r.below(static_cast<uint32_t>(nloggers)));
    int64_t other = (victim + 1 + static_cast<int64_t>(r.below(static_cast<uint32_t>(nloggers - 1)))) % nloggers;
    int k = static_cast<int>(r.range(1, 4));
    for (int j = 0; j < k; ++j)
    {
      Op op = log_op(static_cast<int>(victim));
      main_ops.push_back(op);
    }
    main_ops.push_back(Op{OP_REMOVE_LOGGER, victim});
    main_ops.push_back(Op{OP_FLUSH, other, 100});
  }
  if (r.chance(1, 2))
  {
    gen_stalls(p, r, static_cast<int>(r.range(1, 3)), grace_ns ? grace_ns * 3 : 2000);
  }
  return p;
}

Verdict judge_c06(Plan const& p, History const& h, RunInfoLite const& ri)
{
  Verdict v;
  Model m = Model::build(p, h);
  int64_t grace = p.get("grace_us", 1);
  std::vector<int> sink_type(8, 0);
  for (int i = 0; i < 8; ++i)
  {
    sink_type[static_cast<size_t>(i)] = static_cast<int>(p.get("sink" + std::to_string(i) + "_type", 0));
  }
  // index: per sink, id -> write seq; per sink flush seqs
  std::vector<std::map<int64_t, uint64_t>> wseq(m.by_sink.size());
  std::vector<std::vector<uint64_t>> fseq(m.by_sink.size());
  for (size_t s = 0; s < m.by_sink.size(); ++s)
  {
    for (auto const& w : m.by_sink[s])
    {
      if (w.id >= 0 && !wseq[s].count(w.id))
      {
        wseq[s][w.id] = w.seq;
      }
    }
  }
  for (auto const& e : h.ev)
  {
    if (e.type == EV_SINK_FLUSH && e.a >= 0 && static_cast<size_t>(e.a) < fseq.size())
    {
      fseq[static_cast<size_t>(e.a)].push_back(e.seq);
    }
  }
  uint64_t tsc_excused = 0;
  uint64_t flushes_checked = 0, own_checked = 0, cross_checked = 0, file_checked = 0, first_stmt_cross = 0;
  std::map<int, uint64_t> first_return_seq; // thread -> return seq of its first accepted statement
  for (int64_t id : m.issue_order)
  {
    Issued const& is = m.issued.at(id);
    if (is.result == 1 && !first_return_seq.count(is.thread))
    {
      first_return_seq[is.thread] = is.return_seq;
    }
  }

  // walk the history; at each FLUSH_RETURN evaluate the oracle against everything recorded before it
  struct Pending
  {
    uint64_t invoke_seq;
    uint64_t invoke_vt;
    int64_t logger;
  };
  // A TSC timestamp is converted to wall time through a base pair that is re-synchronised with a
  // bounded error (RdtscClock::resync accepts a window of up to 10000 ticks = 3.4 us here), so two
  // events closer than that can legitimately compare either way when a TSC logger is involved.
  uint64_t const tsc_tolerance_ns = 3400;
  bool tsc_in_run = false;
  for (int i = 0; i < p.get("nloggers", 1); ++i)
  {
    if (p.get("logger" + std::to_string(i) + "_clock", 0) == 1)
    {
      tsc_in_run = true;
    }
  }
  std::map<int, Pending> open_flush; // thread -> invoke
  for (size_t ei = 0; ei < h.ev.size(); ++ei)
  {
    Ev const& e = h.ev[ei];
    if (e.type == EV_FLUSH_INVOKE)
    {
      open_flush[e.thread] = Pending{e.seq, e.vt, e.a};
      continue;
    }
    if (e.type != EV_FLUSH_RETURN)
    {
      continue;
    }
    auto of = open_flush.find(e.thread);
    if (of == open_flush.end())
    {
      continue;
    }
    uint64_t const I = of->second.invoke_seq;
    uint64_t const I_vt = of->second.invoke_vt;
    bool const flush_tsc = p.get("logger" + std::to_string(of->second.logger) + "_clock", 0) == 1;
    uint64_t const R = e.seq;
    open_flush.erase(of);
    ++flushes_checked;
    // file snapshots taken in the same step follow directly
    std::map<int, std::string const*> snaps;
    for (size_t k = ei + 1; k < h.ev.size() && h.ev[k].type == EV_FILE_SNAP; ++k)
    {
      snaps[static_cast<int>(h.ev[k].a)] = &h.ev[k].s;
    }
    for (int64_t id : m.issue_order)
    {
      Issued const& is = m.issued.at(id);
      if (is.result != 1 || is.return_seq == 0 || is.return_seq >= I)
      {
        continue;
      }
      bool own = is.thread == e.thread;
      if (!own)
      {
        // cross-thread clause: only with timestamp ordering enabled and a system / TSC clock
        int64_t const sclock = p.get("logger" + std::to_string(is.logger) + "_clock", 0);
        if (grace == 0 || sclock == 2)
        {
          continue;
        }
        // (a TSC statement ahead in the same thread's queue has the same effect, hence run-level)
        if ((flush_tsc || sclock == 1 || tsc_in_run) && I_vt - is.return_vt <= tsc_tolerance_ns)
        {
          ++tsc_excused;
          continue;
        }
      }
      int64_t mask = m.mask_of_logger_at(is.logger, is.invoke_seq);
      for (size_t s = 0; s < m.by_sink.size(); ++s)
      {
        if (!((mask >> s) & 1))
        {
          continue;
        }
        if (sink_type[s] == 1)
        {
          auto sn = snaps.find(static_cast<int>(s));
          if (sn == snaps.end())
          {
            continue;
          }
          ++file_checked;
          std::string needle = "#" + std::to_string(id) + "# ";
          if (sn->second->find(needle) == std::string::npos)
          {
            return violation(own ? "flush_returned_before_own_statement_in_file" : "flush_returned_before_other_threads_statement_in_file",
                             "flush_log() of thread " + std::to_string(e.thread) + " returned (event " + std::to_string(R) +
                               ") but id " + std::to_string(id) + " of thread " + std::to_string(is.thread) +
                               " (log call returned at event " + std::to_string(is.return_seq) + ", flush invoked at " +
                               std::to_string(I) + ") is not readable from the file of sink " + std::to_string(s),
                             {{"own", own ? "1" : "0"}, {"first_statement_of_thread", first_return_seq[is.thread] == is.return_seq ? "1" : "0"}});
          }
          continue;
        }
        auto w = wseq[s].find(id);
        bool first_of_thread = first_return_seq[is.thread] == is.return_seq;
        if (w == wseq[s].end() || w->second > R)
        {
          return violation(own ? "flush_returned_before_own_statement_written" : "flush_returned_before_other_threads_statement_written",
                           "flush_log() of thread " + std::to_string(e.thread) + " returned (event " + std::to_string(R) +
                             ") but id " + std::to_string(id) + " of thread " + std::to_string(is.thread) +
                             " (log call returned at event " + std::to_string(is.return_seq) + ", flush invoked at " +
                             std::to_string(I) + ") was not yet written to sink " + std::to_string(s),
                           {{"own", own ? "1" : "0"}, {"first_statement_of_thread", first_of_thread ? "1" : "0"}});
        }
        // a flush_sink call on that sink after the write and before the return
        bool flushed = false;
        for (uint64_t fs : fseq[s])
        {
          if (fs > w->second && fs < R)
          {
            flushed = true;
            break;
          }
        }
        if (!flushed)
        {
          return violation("flush_returned_before_sink_flushed",
                           "flush_log() returned at event " + std::to_string(R) + " but sink " + std::to_string(s) +
                             " was not flushed after id " + std::to_string(id) + " was written (event " +
                             std::to_string(w->second) + ")",
                           {{"own", own ? "1" : "0"}});
        }
        if (own)
        {
          ++own_checked;
        }
        else
        {
          ++cross_checked;
          if (first_of_thread)
          {
            ++first_stmt_cross;
          }
        }
      }
    }
  }

  if (ri.stuck || !ri.completed)
  {
    // liveness clause: flush_log() returns as long as the backend keeps running (judged in the fair phase only)
    bool in_flush = false;
    for (auto const& st : h.status)
    {
      if (st.started && !st.finished && st.in_op && st.op_kind == OP_FLUSH)
      {
        in_flush = true;
      }
    }
    bool others_in_log = ri.where.find(":LOG#") != std::string::npos;
    if (in_flush && !others_in_log && ri.stuck_reason == "stuck")
    {
      return violation("flush_never_returns", "fair phase exhausted with a thread inside flush_log(): " + ri.where);
    }
    v.kind = Verdict::INCONCLUSIVE;
    v.tag = "did_not_finish:" + ri.stuck_reason;
    v.detail = ri.where;
    return v;
  }
  // delivery must still be exactly-once for what was accepted (the flush must not disturb it)
  DeliveryRules rules;
  rules.expect = [&m, &sink_type](Issued const& is, int sink) -> int
  {
    if (sink_type[static_cast<size_t>(sink)] == 1)
    {
      return 0; // file sinks do not record writes
    }
    if (is.result != 1)
    {
      return 0;
    }
    return ((m.mask_of_logger_at(is.logger, is.invoke_seq) >> sink) & 1) ? 1 : 0;
  };
  Verdict d = check_delivery(m, rules);
  if (d.kind != Verdict::OK)
  {
    d.tag = "delivery:" + d.tag;
    return d;
  }
  std::set<int> threads;
  for (auto const& kv : m.issued)
  {
    if (kv.second.result == 1)
    {
      threads.insert(kv.second.thread);
    }
  }
  v.nontrivial = flushes_checked >= 1 && (own_checked + cross_checked + file_checked) >= 1 && ri.preemptions >= 1;
  v.probes["flush_returns_checked"] = flushes_checked;
  v.probes["own_statement_sink_pairs_checked"] = own_checked;
  v.probes["cross_thread_statement_sink_pairs_checked"] = cross_checked;
  v.probes["cross_thread_first_statement_of_a_thread"] = first_stmt_cross;
  v.probes["file_sink_reads_checked"] = file_checked;
  {
    int64_t rot = 0;
    for (auto const& e : h.ev)
    {
      if (e.type == EV_FILE_SNAP)
      {
        rot = std::max(rot, e.b);
      }
    }
    v.probes["rotated_files_in_a_rotating_destination"] = static_cast<uint64_t>(rot);
  }
  v.probes["cross_thread_pairs_excused_tsc_sync_tolerance"] = tsc_excused;
  uint64_t dropped = 0;
  for (auto const& kv : m.issued)
  {
    if (kv.second.result == 0)
    {
      ++dropped;
    }
  }
  v.probes["statements_dropped_by_dropping_queue"] = dropped;
  return v;
}

void register_c06(std::vector<Profile>& v)
{
  Profile p;
  p.id = "C06";
  p.title = "flush_log() returns only after all earlier statements are written and flushed";
  p.gen = gen_c06;
  p.judge = judge_c06;
  p.rule =
    "one case = one seeded plan (all four queue types, 1-4 logging/flushing threads + first-time threads spawned next to a "
    "backend stall, recording and real file sinks (FileSink, RotatingFileSink), backend sleep up to 60 s with notify) under one seeded schedule; the "
    "oracle runs in the scheduler step in which flush_log() returns; distinct = distinct event hash; non-trivial = >=1 flush "
    "return checked against >=1 required (statement, sink) pair and >=1 preemption";
  p.real_components = {"LoggerImpl::flush_log/log_statement", "SPSC queues", "BackendWorker (real thread) incl. flush event handling",
                       "StreamSink/FileSink stdio path (file sinks)", "RotatingFileSink (size and minutely rotation)", "ThreadContextManager"};
  p.stub_components = {"recording sinks", "clock (virtual)", "scheduling (simulator)"};
  p.assumptions = {"sequentially consistent atomics", "'before' = the log call returned (global event number) before flush_log was invoked",
                   "file content is read through a fresh descriptor in the same scheduler step",
                   "cross-thread clause with a TSC logger involved is demanded only when the statement returned more than 3.4 us "
                   "(RdtscClock's accepted resync window) before the flush was invoked"};
  p.quick_runs = 24000;
  p.thorough_runs = 400000;
  v.push_back(p);
}
} // namespace vs
