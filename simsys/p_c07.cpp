// p_c07.cpp — C07: stopping, exiting or dying by a handled signal loses no completed statement.
#include "gen_common.h"
#include "oracle_common.h"
#include "profiles.h"
#include "destination.h"

#include <csignal>
#include <fstream>
#include <sys/wait.h>

namespace vs
{
Plan gen_c07(uint64_t seed, int tier)
{
  Rng r(seed);
  Plan p;
  p.profile = "C07";
  p.seed = seed;
  int fo = r.pick<int>({0, 1, 2, 4, 5});
  p.cfg["fo"] = fo;
  gen_sched(p, r);
  gen_backend(p, r);
  p.cfg["wait_empty"] = 1;
  p.cfg["final_flush"] = 0; // the drain on stop / exit is the only thing standing between a statement and its loss
  int nsinks = static_cast<int>(r.range(1, 2));
  int nloggers = static_cast<int>(r.range(1, 2));
  p.cfg["nsinks"] = nsinks;
  p.cfg["nloggers"] = nloggers;
  int64_t clock = r.chance(1, 3) ? 1 : 0;
  for (int i = 0; i < nsinks; ++i)
  {
    p.cfg["sink" + std::to_string(i) + "_type"] = 1; // real FileSink
    p.cfg["sink" + std::to_string(i) + "_notifier"] = Rng(seed ^ static_cast<uint64_t>(0x77 + i)).chance(1, 3) ? 1 : 0; // with FileEventNotifier callbacks
    {
      // one real file sink in three is a RotatingFileSink (size limit, sometimes minutely rotation on top): the destination
      // is then the set of its files
      Rng rr(seed ^ static_cast<uint64_t>(0x9907 + i));
      if (rr.chance(1, 3))
      {
        p.cfg["sink" + std::to_string(i) + "_rotating"] = rr.pick<int64_t>({512, 700, 1024, 2048});
        p.cfg["sink" + std::to_string(i) + "_rot_minutely"] = rr.chance(1, 4) ? 1 : 0;
      }
    }
  }
  for (int i = 0; i < nloggers; ++i)
  {
    p.cfg["logger" + std::to_string(i) + "_sinks"] = r.range(1, (1 << nsinks) - 1);
    p.cfg["logger" + std::to_string(i) + "_clock"] = clock;
  }
  // one run in two: a further logger that only the main thread uses and that the main thread removes (asynchronously) somewhere
  // before the stop / exit / signal — what it logged through it before is owed like everything else
  int priv_logger = -1;
  {
    Rng rr(seed ^ 0x9e7c07);
    if (rr.chance(1, 2))
    {
      priv_logger = nloggers;
      p.cfg["nloggers"] = nloggers + 1;
      int64_t mask = rr.range(1, (1 << nsinks) - 1);
      if (rr.chance(1, 2))
      {
        // a file sink of its own (no other logger reaches it)
        p.cfg["sink" + std::to_string(nsinks) + "_type"] = 1;
        mask = rr.chance(1, 2) ? (mask | (int64_t{1} << nsinks)) : (int64_t{1} << nsinks);
        p.cfg["nsinks"] = nsinks + 1;
      }
      p.cfg["logger" + std::to_string(priv_logger) + "_sinks"] = mask;
      p.cfg["logger" + std::to_string(priv_logger) + "_clock"] = clock;
    }
  }
  fix_timescale(p);
  // terminal event: none (stop/start cycles), exit(n), or one of the six handled signals (raised or really faulted)
  uint32_t tk = r.below(100);
  int terminal = tk < 25 ? 0 : (tk < 50 ? 1 : 2);
  static int const sigs[6] = {SIGSEGV, SIGABRT, SIGFPE, SIGILL, SIGINT, SIGTERM};
  int sig = sigs[r.below(6)];
  bool real_fault = (sig != SIGINT && sig != SIGTERM) && r.chance(1, 2);
  if (terminal == 2)
  {
    p.cfg["signal_handler"] = 1;
    p.cfg["sig_logger_named"] = r.chance(1, 2) ? 1 : 0;
    // The signal clause is not conditioned on wait_for_queues_to_empty_before_exit (only the stop / exit clause is): one
    // signal run in three has it switched off — what the signalled thread logged and the notice are owed all the same
    if (Rng(seed ^ 0x3a17e0).chance(1, 3))
    {
      p.cfg["wait_empty"] = 0;
    }
  }
  int nthreads = static_cast<int>(r.range(1, 3));
  int nexited = static_cast<int>(r.range(0, 2));
  p.threads.resize(static_cast<size_t>(nthreads + nexited));
  int victim = static_cast<int>(r.below(static_cast<uint32_t>(nthreads)));
  int boundary = static_cast<int>(r.range(0, 8)); // the terminal event sits after this many statements of the victim
  bool busy = r.chance(1, 2);
  auto log_op = [&]()
  {
    return Op{OP_LOG, static_cast<int64_t>(r.below(static_cast<uint32_t>(nloggers))), static_cast<int64_t>(r.below(4)), r.range(2, 8),
              static_cast<int64_t>(r.next() >> 8), static_cast<int64_t>(gen_size(r, fo) % 200), 0};
  };
  for (int t = 0; t < nthreads; ++t)
  {
    auto& ops = p.threads[static_cast<size_t>(t)];
    int n = static_cast<int>(r.range(2, tier ? 30 : 16));
    int logged = 0;
    for (int i = 0; i < n; ++i)
    {
      if (terminal && t == victim && logged == boundary)
      {
        break;
      }
      uint32_t c = r.below(100);
      if (c < 80)
      {
        ops.push_back(log_op());
        ++logged;
      }
      else if (c < 88)
      {
        ops.push_back(Op{OP_SLEEP, r.pick<int64_t>({500, 5000})});
      }
      else if (c < 94 && terminal == 0 && t == 0)
      {
        // stop / start cycles (only main drives the backend's life cycle)
        ops.push_back(Op{OP_STOP});
        if (r.chance(1, 3))
        {
          ops.push_back(log_op()); // logged while the backend is down: delivered after the restart
          ++logged;
        }
        ops.push_back(Op{OP_START});
      }
      else if (c < 97)
      {
        ops.push_back(Op{OP_FLUSH, 0, 100});
      }
    }
    if (terminal && t == victim)
    {
      if (!busy)
      {
        ops.push_back(Op{OP_SLEEP, p.cfg["sleep_ns"] * 3 + 30000}); // let the backend go idle first
      }
      else if (r.chance(1, 2))
      {
        ops.push_back(Op{OP_STALL, -1, 0, r.range(1, 10), r.pick<int64_t>({3000, 30000})});
      }
      if (terminal == 1)
      {
        ops.push_back(Op{OP_EXIT, r.pick<int64_t>({0, 0, 1, 3, 42})});
      }
      else
      {
        ops.push_back(Op{real_fault ? OP_FAULT : OP_RAISE, sig});
      }
    }
  }
  if (terminal == 2 && nthreads >= 2 && r.chance(1, 3))
  {
    // the same signal hits a second thread (double Ctrl-C, two threads faulting shortly after each other): whichever
    // raises first is the victim; the other delivery happens before, while or after its handler flushes
    int second = (victim + 1) % nthreads;
    auto& sops = p.threads[static_cast<size_t>(second)];
    size_t pos = sops.empty() ? 0 : r.below(static_cast<uint32_t>(sops.size() + 1));
    sops.insert(sops.begin() + static_cast<long>(pos), Op{OP_RAISE, sig});
    p.cfg["second_signal"] = 1;
  }
  // threads that log and are gone long before the end
  for (int t = nthreads; t < nthreads + nexited; ++t)
  {
    auto& ops = p.threads[static_cast<size_t>(t)];
    int n = static_cast<int>(r.range(1, 4));
    for (int i = 0; i < n; ++i)
    {
      ops.push_back(log_op());
    }
  }
  auto& main_ops = p.threads[0];
  if (priv_logger >= 0)
  {
    Rng rr(seed ^ 0x9e7c08);
    bool const ends_with_terminal = terminal && victim == 0 && !main_ops.empty();
    size_t const limit = main_ops.size() - (ends_with_terminal ? 1 : 0);
    size_t const rpos = rr.below(static_cast<uint32_t>(limit + 1));
    std::vector<Op> rem;
    uint32_t const shape = rr.below(4);
    if (shape == 0)
    {
      // the backend is held somewhere in its loop while the removal happens
      rem.push_back(Op{OP_STALL, -1, rr.pick<int64_t>({0, 1, 2, 15}), rr.range(1, 30), rr.pick<int64_t>({2000, 20000})});
    }
    else if (shape <= 2)
    {
      // the backend has gone idle (everything logged so far is written, perhaps not flushed) and is held between two of the
      // loads of its idle round while the removal happens
      // (armed, then given the time to get there, as in the membership-change fragments of C05 / C06)
      rem.push_back(Op{OP_SLEEP, p.cfg["sleep_ns"] * 3 + 30000});
      int64_t const reach = p.cfg["sleep_ns"] + p.cfg["delta_ns"] * 400;
      rem.push_back(Op{OP_STALL, -1, 1 + 256 * 1, rr.range(1, 14), reach + p.cfg["delta_ns"] * rr.pick<int64_t>({300, 1000})});
      rem.push_back(Op{OP_SLEEP, reach});
    }
    rem.push_back(Op{OP_REMOVE_LOGGER, priv_logger});
    main_ops.insert(main_ops.begin() + static_cast<long>(rpos), rem.begin(), rem.end());
    int const n = static_cast<int>(rr.range(1, 4));
    // (not while the backend is stopped: a blocking queue that nobody reads would block the main thread before its START)
    auto backend_down_at = [&main_ops](size_t pos)
    {
      int down = 0;
      for (size_t k = 0; k < pos && k < main_ops.size(); ++k)
      {
        down += main_ops[k].k == OP_STOP ? 1 : (main_ops[k].k == OP_START ? -1 : 0);
      }
      return down > 0;
    };
    for (int i = 0; i < n; ++i)
    {
      size_t const pos = rr.below(static_cast<uint32_t>(rpos + 1));
      if (backend_down_at(pos))
      {
        continue;
      }
      main_ops.insert(main_ops.begin() + static_cast<long>(pos),
                      Op{OP_LOG, priv_logger, static_cast<int64_t>(rr.below(4)), rr.range(2, 8), static_cast<int64_t>(rr.next() >> 8),
                         static_cast<int64_t>(rr.below(120)), 0});
    }
  }
  std::vector<Op> prefix;
  for (int t = nthreads; t < nthreads + nexited; ++t)
  {
    prefix.push_back(Op{OP_SPAWN, t});
    if (r.chance(2, 3))
    {
      prefix.push_back(Op{OP_JOIN, t});
    }
  }
  for (int t = 1; t < nthreads; ++t)
  {
    prefix.push_back(Op{OP_SPAWN, t});
  }
  main_ops.insert(main_ops.begin(), prefix.begin(), prefix.end());
  if (!(terminal && victim == 0))
  {
    for (int t = 1; t < nthreads + nexited; ++t)
    {
      main_ops.push_back(Op{OP_JOIN, t});
    }
  }
  else
  {
    // main is the victim: the other threads are alive or parked when the terminal event happens; join before it
    // only sometimes
    if (r.chance(1, 2))
    {
      Op term = main_ops.back();
      main_ops.pop_back();
      for (int t = 1; t < nthreads + nexited; ++t)
      {
        main_ops.push_back(Op{OP_JOIN, t});
      }
      main_ops.push_back(term);
    }
  }
  return p;
}

namespace
{
struct FileLines
{
  std::vector<std::string> lines;
};
std::vector<std::string> split_lines(std::string const& content)
{
  std::vector<std::string> v;
  size_t pos = 0;
  while (pos < content.size())
  {
    size_t nl = content.find('\n', pos);
    if (nl == std::string::npos)
    {
      v.push_back(content.substr(pos));
      break;
    }
    v.push_back(content.substr(pos, nl - pos));
    pos = nl + 1;
  }
  return v;
}
} // namespace

// child side: runs that end normally (stop / start cycles, no terminal event)
Verdict judge_c07(Plan const& p, History const& h, RunInfoLite const& ri)
{
  Verdict v;
  if (ri.stuck || !ri.completed)
  {
    if (ri.stuck_reason == "stuck" && (ri.where.find(":STOP#") != std::string::npos || ri.where.find(":EXIT#") != std::string::npos ||
                                       ri.where.find(":RAISE#") != std::string::npos || ri.where.find(":FAULT#") != std::string::npos))
    {
      return violation("stop_or_exit_never_completes", "fair phase exhausted: " + ri.where);
    }
    v.kind = Verdict::INCONCLUSIVE;
    v.tag = "did_not_finish:" + ri.stuck_reason;
    v.detail = ri.where;
    return v;
  }
  Model m = Model::build(p, h);
  int nsinks = static_cast<int>(p.get("nsinks", 1));
  uint64_t stops = 0, checked = 0, restarts = 0;
  for (size_t ei = 0; ei < h.ev.size(); ++ei)
  {
    Ev const& e = h.ev[ei];
    if (e.type == EV_START_RETURN)
    {
      ++restarts;
    }
    if (e.type != EV_STOP_RETURN)
    {
      continue;
    }
    ++stops;
    // the matching invoke
    uint64_t I = 0;
    for (size_t k = ei; k-- > 0;)
    {
      if (h.ev[k].type == EV_STOP_INVOKE)
      {
        I = h.ev[k].seq;
        break;
      }
    }
    std::map<int, std::string const*> snaps;
    for (size_t k = ei + 1; k < h.ev.size() && h.ev[k].type == EV_FILE_SNAP; ++k)
    {
      snaps[static_cast<int>(h.ev[k].a)] = &h.ev[k].s;
    }
    for (int64_t id : m.issue_order)
    {
      Issued const& is = m.issued.at(id);
      if (is.result != 1 || is.return_seq == 0 || is.return_seq >= I)
      {
        continue;
      }
      int64_t mask = m.mask_of_logger_at(is.logger, is.invoke_seq);
      for (int s = 0; s < nsinks; ++s)
      {
        if (!((mask >> s) & 1) || !snaps.count(s))
        {
          continue;
        }
        ++checked;
        if (snaps[s]->find(is.expected + "\n") == std::string::npos)
        {
          return violation("statement_missing_after_stop",
                           "Backend::stop() returned but id " + std::to_string(id) + " of thread " + std::to_string(is.thread) +
                             " (log call returned at event " + std::to_string(is.return_seq) + ", stop invoked at " + std::to_string(I) +
                             ") is not in the file of sink " + std::to_string(s),
                           {{"after_restart", restarts > 1 ? "1" : "0"}});
        }
      }
    }
  }
  // order and duplicates in the final files
  for (auto const& e : h.ev)
  {
    if (e.type != EV_FILE_SNAP)
    {
      continue;
    }
  }
  v.nontrivial = stops >= 1 && checked >= 1;
  v.probes["stops_checked"] = stops;
  v.probes["statement_file_pairs_checked_at_stop"] = checked;
  v.probes["backend_starts"] = restarts;
  {
    int64_t rot = 0;
    for (auto const& e : h.ev)
    {
      if (e.type == EV_FILE_SNAP)
      {
        rot = std::max(rot, e.b);
      }
    }
    v.probes["rotated_files_in_a_rotating_destination"] = static_cast<uint64_t>(rot);
  }
  v.probes["terminal_events_judged_by_parent"] = 0;
  return v;
}

// parent side: the child really exited or died
Verdict judge_c07_parent(Plan const& p, std::string const& pre, int wait_status, std::string const&)
{
  Verdict v;
  int term_kind = 0, term_arg = 0, term_thread = 0;
  std::map<int, std::string> files;
  std::set<int> rotating;
  struct S
  {
    int64_t id;
    int thread, logger, result, returned;
    std::string text;
  };
  std::vector<S> stmts;
  bool survived = false;
  std::istringstream in(pre);
  std::string line;
  while (std::getline(in, line))
  {
    std::istringstream ls(line);
    std::string w;
    ls >> w;
    if (w == "terminal")
    {
      ls >> term_kind >> term_arg >> term_thread;
    }
    else if (w == "file" || w == "rfile")
    {
      int i;
      std::string path;
      ls >> i >> path;
      files[i] = path;
      if (w == "rfile")
      {
        rotating.insert(i);
      }
    }
    else if (w == "stmt")
    {
      S s;
      ls >> s.id >> s.thread >> s.logger >> s.result >> s.returned;
      std::getline(ls, s.text);
      if (!s.text.empty() && s.text[0] == ' ')
      {
        s.text.erase(0, 1);
      }
      stmts.push_back(s);
    }
    else if (w == "survived")
    {
      survived = true;
    }
  }
  std::string what = term_kind == OP_EXIT ? "exit(" + std::to_string(term_arg) + ")"
                                          : std::string(term_kind == OP_RAISE ? "raise(" : "fault(") + strsignal(term_arg) + ")";
  if (survived)
  {
    return violation("process_survived_a_fatal_signal", what + " returned control to the program");
  }
  // wait status
  bool is_signal = term_kind == OP_RAISE || term_kind == OP_FAULT;
  if (!is_signal)
  {
    if (!WIFEXITED(wait_status) || WEXITSTATUS(wait_status) != (term_arg & 0xFF))
    {
      return violation("wrong_exit_status", what + " ended with wait status " + std::to_string(wait_status));
    }
  }
  else if (term_arg == SIGINT || term_arg == SIGTERM)
  {
    if (!WIFEXITED(wait_status) || WEXITSTATUS(wait_status) != 0)
    {
      return violation("wrong_exit_status", what + ": the process must exit successfully, wait status " + std::to_string(wait_status),
                       {{"signal", std::to_string(term_arg)}});
    }
  }
  else if (!WIFSIGNALED(wait_status) || WTERMSIG(wait_status) != term_arg)
  {
    return violation("process_did_not_die_from_the_original_signal",
                     what + ": wait status " + std::to_string(wait_status) + (WIFSIGNALED(wait_status) ? std::string(" (signal ") + strsignal(WTERMSIG(wait_status)) + ")" : ""),
                     {{"signal", std::to_string(term_arg)}});
  }
  std::map<int, std::vector<std::string>> content;
  int64_t rotated_seen = 0;
  for (auto const& kv : files)
  {
    content[kv.first] = split_lines(rotating.count(kv.first) ? read_rotating_destination(kv.second, &rotated_seen) : read_whole_file(kv.second));
  }
  uint64_t required = 0;
  int nsinks = static_cast<int>(p.get("nsinks", 1));
  for (int s = 0; s < nsinks; ++s)
  {
    if (!content.count(s))
    {
      continue;
    }
    auto const& lines = content[s];
    // positions of statements in the file
    std::map<std::string, size_t> pos;
    for (size_t i = 0; i < lines.size(); ++i)
    {
      if (!lines[i].empty() && lines[i][0] == '#')
      {
        if (pos.count(lines[i]))
        {
          return violation("statement_written_twice", "line '" + lines[i].substr(0, 60) + "' twice in the file of sink " + std::to_string(s));
        }
        pos[lines[i]] = i;
      }
    }
    std::map<int, size_t> last_pos; // per thread
    for (auto const& st : stmts)
    {
      int64_t mask = p.get("logger" + std::to_string(st.logger) + "_sinks", 1);
      if (!((mask >> s) & 1) || st.result != 1)
      {
        continue;
      }
      // exit: every statement completed before the exit request; signal: every statement the signalled thread logged
      bool must = is_signal ? (st.thread == term_thread && st.returned) : st.returned != 0;
      auto it = pos.find(st.text);
      if (must)
      {
        ++required;
        if (it == pos.end())
        {
          return violation(is_signal ? "statement_of_signalled_thread_missing" : "completed_statement_missing_after_exit",
                           what + " on thread " + std::to_string(term_thread) + ": id " + std::to_string(st.id) + " of thread " +
                             std::to_string(st.thread) + " is not in the file of sink " + std::to_string(s),
                           {{"signal", is_signal ? std::to_string(term_arg) : "0"}, {"victim_is_main", term_thread == 0 ? "1" : "0"}});
        }
      }
      if (it != pos.end())
      {
        if (last_pos.count(st.thread) && it->second < last_pos[st.thread])
        {
          return violation("statements_out_of_thread_order_in_file", "sink " + std::to_string(s) + " thread " + std::to_string(st.thread));
        }
        last_pos[st.thread] = it->second;
      }
    }
  }
  if (is_signal)
  {
    // the handler's notice follows the thread's statements (in the file(s) of the logger the handler uses: the first)
    int64_t mask0 = p.get("logger0_sinks", 1);
    bool found = false;
    for (int s = 0; s < nsinks; ++s)
    {
      if (!((mask0 >> s) & 1) || !content.count(s))
      {
        continue;
      }
      auto const& lines = content[s];
      size_t notice = std::string::npos;
      for (size_t i = 0; i < lines.size(); ++i)
      {
        if (lines[i].find("Received signal") != std::string::npos)
        {
          notice = i;
        }
      }
      if (notice == std::string::npos)
      {
        continue;
      }
      found = true;
      for (size_t i = notice + 1; i < lines.size(); ++i)
      {
        for (auto const& st : stmts)
        {
          if (st.thread == term_thread && lines[i] == st.text)
          {
            return violation("handler_notice_before_the_threads_statements", what + ": id " + std::to_string(st.id) + " follows the notice");
          }
        }
      }
    }
    if (!found)
    {
      return violation("handler_notice_missing", what + ": no 'Received signal' line in the destination",
                       {{"signal", std::to_string(term_arg)}, {"victim_is_main", term_thread == 0 ? "1" : "0"}});
    }
  }
  v.nontrivial = true;
  v.probes["terminal_events_judged_by_parent"] = 1;
  v.probes["rotated_files_in_a_rotating_destination"] += static_cast<uint64_t>(rotated_seen);
  v.probes["required_statement_file_pairs"] = required;
  v.probes[std::string("terminal_") + (term_kind == OP_EXIT ? "exit" : (term_kind == OP_RAISE ? "raise" : "real_fault"))] = 1;
  if (is_signal)
  {
    v.probes[std::string("signal_") + std::to_string(term_arg)] = 1;
  }
  return v;
}

void register_c07(std::vector<Profile>& v)
{
  Profile p;
  p.id = "C07";
  p.title = "Stopping, exiting or dying by a handled signal loses no completed statement";
  p.gen = gen_c07;
  p.judge = judge_c07;
  p.judge_parent = judge_c07_parent;
  p.rule =
    "one case = one seeded program: 1-3 logging threads + 0-2 threads that logged and exited, real FileSinks / RotatingFileSinks (the destination is "
    "the set of files), System or TSC clock, in one run of three a logger the main thread removes before the end, and one "
    "terminal event placed after 0-8 statements of a victim thread with the backend busy, stalled or idle: none (Backend::stop()/start() "
    "cycles incl. statements logged while stopped), exit(n), or SIGSEGV/SIGABRT/SIGFPE/SIGILL/SIGINT/SIGTERM with quill's built-in handler, "
    "raised or really faulted (null store, abort(), integer division, ud2); the child really exits / dies and the parent judges wait status "
    "and file contents; distinct = distinct event hash up to the terminal event; non-trivial = a terminal event judged by the parent or >=1 "
    "stop checked";
  p.real_components = {"BackendWorker::_exit drain", "BackendManager start/stop + atexit handler", "detail::on_signal (real signal delivery in the child)",
                       "FileSink stdio path", "RotatingFileSink (size and minutely rotation)", "logger removal / clean-up", "frontend, queues"};
  p.stub_components = {"clock (virtual)", "alarm() (recorded, never armed: the 20 s watchdog is real time)", "scheduling (simulator); after exit() began the "
                       "other user threads finish their current call and park"};
  p.assumptions = {"plain flavour only (ASan installs its own SIGSEGV handling)", "return from main is exit(n) by the C++ standard and is exercised as exit(n)"};
  p.quick_runs = 32000;
  p.thorough_runs = 300000;
  v.push_back(p);
}
} // namespace vs
