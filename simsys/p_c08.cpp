// p_c08.cpp — C08: dropping queue: a statement is delivered intact or reported dropped, never both.
#include "gen_common.h"
#include "oracle_common.h"
#include "profiles.h"

namespace vs
{
Plan gen_c08(uint64_t seed, int tier)
{
  Rng r(seed);
  Plan p;
  p.profile = "C08";
  p.seed = seed;
  int fo = r.pick<int>({3, 6, 6, 7});
  p.cfg["fo"] = fo;
  FOInfo fi = fo_info(fo);
  gen_sched(p, r);
  gen_backend(p, r);
  gen_backend_mode(p, r);
  p.cfg["grace_us"] = r.pick<int64_t>({0, 1, 1});
  gen_loggers_and_sinks(p, r, 2, 2, false);
  fix_timescale(p);
  int nloggers = static_cast<int>(p.cfg["nloggers"]);
  int nlong = static_cast<int>(r.range(1, 3));
  // one private logger per long thread (index nloggers + t): the effect of control requests issued while the queue is full
  // is observed there — a backtrace that is initialised, filled, flushed; a blocking removal
  for (int t = 0; t < nlong; ++t)
  {
    p.cfg["logger" + std::to_string(nloggers + t) + "_sinks"] = p.cfg["logger0_sinks"];
    p.cfg["logger" + std::to_string(nloggers + t) + "_clock"] = p.cfg["logger0_clock"];
  }
  p.cfg["nloggers"] = nloggers + nlong;
  int nshort = static_cast<int>(r.range(0, 3));
  int nthreads = nlong + nshort;
  p.threads.resize(static_cast<size_t>(nthreads));

  auto burst = [&](std::vector<Op>& ops, int lg)
  {
    int n = static_cast<int>(r.range(2, tier ? 40 : 24));
    size_t sz = r.chance(1, 2) ? r.below(40) : r.below(static_cast<uint32_t>(fi.init_cap / 3));
    for (int i = 0; i < n; ++i)
    {
      size_t s = r.chance(1, 4) ? r.below(static_cast<uint32_t>(fi.init_cap / 2)) : sz;
      if (r.chance(1, 40))
      {
        // a size that can never fit (bounded: > capacity; unbounded: > maximum -> QuillError)
        s = fi.max_cap + static_cast<size_t>(r.range(0, 64));
      }
      else if (fi.reach_cap() < fi.max_cap && r.chance(1, 40))
      {
        // larger than the largest buffer the queue can reach, not larger than the configured maximum: cannot be accepted
        // without allocating beyond the maximum (it is discarded)
        s = fi.reach_cap() + static_cast<size_t>(r.below(static_cast<uint32_t>(fi.max_cap - fi.reach_cap() - 100)));
      }
      // sites 0-3: std::string, string_view, C string (length cached in the thread's size cache), named arguments
      ops.push_back(Op{OP_LOG, lg, static_cast<int64_t>(r.below(4)), r.range(3, 8), static_cast<int64_t>(r.next() >> 8), static_cast<int64_t>(s), 0});
    }
  };

  for (int t = 0; t < nthreads; ++t)
  {
    auto& ops = p.threads[static_cast<size_t>(t)];
    int lg = static_cast<int>(r.below(static_cast<uint32_t>(nloggers)));
    int rounds = t < nlong ? static_cast<int>(r.range(1, 4)) : 1;
    int effect_round = (t < nlong && r.chance(1, 2)) ? static_cast<int>(r.below(static_cast<uint32_t>(rounds))) : -1;
    for (int k = 0; k < rounds; ++k)
    {
      if (k == effect_round)
      {
        // control requests whose effect is observable, each issued right after a burst (queue probably full, backend stalled)
        int const plg = nloggers + t;
        int64_t cap = r.range(1, 4);
        ops.push_back(Op{OP_STALL, -1, 0, r.range(1, 20), r.pick<int64_t>({5000, 20000, 100000})});
        burst(ops, lg);
        ops.push_back(Op{OP_BT_INIT, plg, cap, 10});
        if (r.chance(1, 2))
        {
          ops.push_back(Op{OP_SLEEP, r.pick<int64_t>({5000, 50000, 200000})});
        }
        int nbt = static_cast<int>(r.pick<int64_t>({0, 1, cap, cap + 1, 2 * cap + 1}));
        for (int i = 0; i < nbt; ++i)
        {
          ops.push_back(Op{OP_BT_LOG, plg, 0, 0, static_cast<int64_t>(r.next() >> 8), static_cast<int64_t>(r.below(24)), 0});
        }
        if (r.chance(1, 2))
        {
          burst(ops, lg);
        }
        ops.push_back(Op{OP_BT_FLUSH, plg});
        ops.push_back(Op{OP_FLUSH, plg, 100});
        if (r.chance(1, 2))
        {
          burst(ops, lg);
          ops.push_back(Op{OP_REMOVE_BLOCKING, plg});
        }
      }
      if (r.chance(1, 3))
      {
        // stall the backend so that the burst really fills the queue
        ops.push_back(Op{OP_STALL, -1, 0, r.range(1, 20), r.pick<int64_t>({5000, 20000, 100000})});
      }
      burst(ops, lg);
      if (t < nlong)
      {
        uint32_t c = r.below(100);
        // control requests issued while the queue is (probably) full
        if (c < 35)
        {
          ops.push_back(Op{OP_FLUSH, lg, r.pick<int64_t>({0, 100})});
        }
        else if (c < 50)
        {
          ops.push_back(Op{OP_BT_INIT, lg, r.range(1, 4), 10});
        }
        else if (c < 60)
        {
          ops.push_back(Op{OP_BT_FLUSH, lg});
        }
        else if (c < 75)
        {
          ops.push_back(Op{OP_SLEEP, r.pick<int64_t>({500, 5000, 20000})});
        }
      }
    }
    // short threads exit right after their burst: their drop counter must still be reported
  }
  auto& main_ops = p.threads[0];
  std::vector<Op> prefix;
  for (int t = 1; t < nlong; ++t)
  {
    prefix.push_back(Op{OP_SPAWN, t});
  }
  main_ops.insert(main_ops.begin(), prefix.begin(), prefix.end());
  for (int t = nlong; t < nthreads; ++t)
  {
    size_t lo = static_cast<size_t>(nlong - 1);
    size_t pos = lo + r.below(static_cast<uint32_t>(main_ops.size() - lo + 1));
    std::vector<Op> frag{Op{OP_SPAWN, t}};
    if (r.chance(2, 3))
    {
      // wait for the short thread, then flush from this thread before the backend goes idle
      frag.push_back(Op{OP_JOIN, t});
      frag.push_back(Op{OP_FLUSH, 0, 100});
    }
    main_ops.insert(main_ops.begin() + static_cast<long>(pos), frag.begin(), frag.end());
  }
  for (int t = 1; t < nthreads; ++t)
  {
    main_ops.push_back(Op{OP_JOIN, t});
  }
  return p;
}

Verdict judge_c08(Plan const& p, History const& h, RunInfoLite const& ri)
{
  Verdict v;
  Model m = Model::build(p, h);
  FOInfo fi = fo_info(static_cast<int>(p.get("fo", 6)));
  if (ri.stuck || !ri.completed)
  {
    bool in_control = false;
    for (auto const& st : h.status)
    {
      if (st.started && !st.finished && st.in_op &&
          (st.op_kind == OP_FLUSH || st.op_kind == OP_BT_INIT || st.op_kind == OP_BT_FLUSH || st.op_kind == OP_REMOVE_BLOCKING))
      {
        in_control = true;
      }
    }
    if (in_control && ri.stuck_reason == "stuck")
    {
      return violation("control_request_never_returns", "fair phase exhausted inside a control request: " + ri.where);
    }
    v.kind = Verdict::INCONCLUSIVE;
    v.tag = "did_not_finish:" + ri.stuck_reason;
    v.detail = ri.where;
    return v;
  }
  // returned true <=> delivered exactly once, intact, in order; returned false <=> never delivered
  // Backtrace statements exist only on the private loggers (one writer each): after BT_INIT cap, n stored statements, BT_FLUSH
  // and a completed flush_log exactly the last min(cap, stored) of them must have been written — if the initialisation or the
  // flush request had been discarded because the queue was full, none would be. Judged only for the generated shape.
  std::set<int64_t> bt_must;
  std::set<int> bt_unjudged;
  uint64_t bt_cycles = 0, removals_after_burst = 0;
  for (size_t t = 0; t < p.threads.size(); ++t)
  {
    int plg = -1;
    for (auto const& op : p.threads[t])
    {
      if (op.k == OP_BT_LOG)
      {
        plg = static_cast<int>(op.v[0]);
      }
    }
    if (plg < 0)
    {
      continue;
    }
    // shape: BT_INIT plg, BT_LOG plg*, BT_FLUSH plg, FLUSH plg (other ops in between are on other loggers)
    int stage = 0;
    size_t cap = 0;
    bool shape_ok = true;
    for (auto const& op : p.threads[t])
    {
      bool on_plg = (op.k == OP_BT_INIT || op.k == OP_BT_LOG || op.k == OP_BT_FLUSH || op.k == OP_FLUSH || op.k == OP_REMOVE_BLOCKING ||
                     op.k == OP_LOG) &&
        op.v[0] == plg;
      if (!on_plg)
      {
        continue;
      }
      if (op.k == OP_BT_INIT && stage == 0)
      {
        cap = static_cast<size_t>(op.v[1]);
        stage = 1;
      }
      else if (op.k == OP_BT_LOG && stage == 1)
      {
      }
      else if (op.k == OP_BT_FLUSH && stage == 1)
      {
        stage = 2;
      }
      else if (op.k == OP_FLUSH && stage == 2)
      {
        stage = 3;
      }
      else if (op.k == OP_REMOVE_BLOCKING && stage == 3)
      {
        stage = 4;
        ++removals_after_burst;
      }
      else
      {
        shape_ok = false;
      }
    }
    if (!shape_ok || stage < 3)
    {
      bt_unjudged.insert(plg);
      continue;
    }
    std::vector<int64_t> stored;
    for (int64_t id : m.issue_order)
    {
      Issued const& is = m.issued.at(id);
      if (is.kind == 1 && is.logger == plg && is.result == 1)
      {
        stored.push_back(id);
      }
    }
    size_t n = std::min(cap, stored.size());
    bt_must.insert(stored.end() - static_cast<long>(n), stored.end());
    ++bt_cycles;
  }
  DeliveryRules rules;
  rules.expect = [&](Issued const& is, int sink) -> int
  {
    if (is.result != 1)
    {
      return 0;
    }
    bool const to_sink = ((m.mask_of_logger_at(is.logger, is.invoke_seq) >> sink) & 1) != 0;
    if (is.kind == 1)
    {
      if (bt_unjudged.count(is.logger))
      {
        return -1;
      }
      return (to_sink && bt_must.count(is.id)) ? 1 : 0;
    }
    return to_sink ? 1 : 0;
  };
  // two passes: ordinary statements, then the backtrace statements (a replay is written after statements issued later — the
  // documented exception to ordering — so the per-thread order is checked within each group only)
  rules.skip = [](Issued const& is) { return is.kind == 1; };
  Verdict d = check_delivery(m, rules);
  if (d.kind == Verdict::OK)
  {
    rules.skip = [](Issued const& is) { return is.kind != 1; };
    d = check_delivery(m, rules);
    if (d.kind != Verdict::OK)
    {
      d.fields["backtrace_statement"] = "1";
    }
  }
  if (d.kind != Verdict::OK)
  {
    if (d.tag == "unexpected_delivery")
    {
      d.tag = "delivered_although_reported_dropped";
    }
    if (d.tag == "lost")
    {
      d.tag = "accepted_but_not_delivered";
    }
    return d;
  }
  uint64_t attempted = 0, accepted = 0, dropped = 0, threw = 0, never_fit = 0;
  std::map<int, uint64_t> dropped_by_thread;
  for (auto const& kv : m.issued)
  {
    Issued const& is = kv.second;
    ++attempted;
    if (is.result == 1)
    {
      ++accepted;
    }
    else if (is.result == 0)
    {
      ++dropped;
      ++dropped_by_thread[is.thread];
    }
    else if (is.result == -2)
    {
      ++threw;
    }
    if (encoded_size_of(p, is.id) > fi.reach_cap() && encoded_size_of(p, is.id) <= fi.max_cap && is.result == 1)
    {
      return violation("accepted_statement_larger_than_capacity",
                       "id " + std::to_string(is.id) + " (encoded size " + std::to_string(encoded_size_of(p, is.id)) +
                         ") was accepted although no buffer within the configured maximum " + std::to_string(fi.max_cap) + " can hold it",
                       {{"within_configured_maximum", "1"}});
    }
    if (encoded_size_of(p, is.id) > fi.max_cap)
    {
      ++never_fit;
      if (is.result == 1)
      {
        return violation("accepted_statement_larger_than_capacity", "id " + std::to_string(is.id) + " was accepted");
      }
      if (fi.unbounded && is.result != -2)
      {
        return violation("oversize_statement_not_rejected_with_error",
                         "unbounded dropping queue: id " + std::to_string(is.id) + " larger than the maximum returned " +
                           std::to_string(is.result) + " instead of throwing");
      }
    }
  }
  // bounded dropping: discard counts reported through the notifier add up, per thread
  if (!fi.unbounded)
  {
    std::map<int, uint64_t> reported; // plan thread -> sum
    for (auto const& n : m.notifier)
    {
      size_t pd = n.find("Dropped ");
      if (pd == std::string::npos)
      {
        continue;
      }
      uint64_t cnt = strtoull(n.c_str() + pd + 8, nullptr, 10);
      size_t pt = n.rfind("thread ");
      int tid = pt == std::string::npos ? -1 : std::atoi(n.c_str() + pt + 7);
      int plan_thread = -1;
      for (size_t t = 0; t < h.status.size(); ++t)
      {
        if (h.status[t].sim_id + 1000 == tid)
        {
          plan_thread = static_cast<int>(t);
        }
      }
      reported[plan_thread] += cnt;
    }
    std::set<int> threads;
    for (auto const& kv : dropped_by_thread)
    {
      threads.insert(kv.first);
    }
    for (auto const& kv : reported)
    {
      threads.insert(kv.first);
    }
    for (int t : threads)
    {
      if (reported[t] != dropped_by_thread[t])
      {
        bool exited = t != 0;
        return violation("reported_drop_count_mismatch",
                         "thread " + std::to_string(t) + ": " + std::to_string(dropped_by_thread[t]) +
                           " log calls returned false but the notifier reported " + std::to_string(reported[t]) + " drops",
                         {{"direction", reported[t] < dropped_by_thread[t] ? "under_reported" : "over_reported"},
                          {"thread_exited", exited ? "1" : "0"}});
      }
    }
  }
  v.nontrivial = dropped >= 1 && accepted >= 1 && ri.preemptions >= 1;
  v.probes["attempted"] = attempted;
  v.probes["accepted"] = accepted;
  v.probes["dropped"] = dropped;
  v.probes["oversize_rejected_with_error"] = threw;
  v.probes["never_fitting_sizes"] = never_fit;
  uint64_t control = 0;
  for (auto const& e : h.ev)
  {
    if (e.type == EV_FLUSH_RETURN || (e.type == EV_BT_INIT && e.d == 1) || (e.type == EV_BT_FLUSH && e.d == 1))
    {
      ++control;
    }
  }
  v.probes["control_requests_completed"] = control;
  v.probes["backtrace_init_fill_flush_cycles_checked"] = bt_cycles;
  v.probes["backtrace_statements_that_had_to_be_replayed"] = bt_must.size();
  v.probes["blocking_removals_after_a_burst"] = removals_after_burst;
  return v;
}

void register_c08(std::vector<Profile>& v)
{
  Profile p;
  p.id = "C08";
  p.title = "Dropping queue: a statement is delivered intact or reported dropped, never both";
  p.gen = gen_c08;
  p.judge = judge_c08;
  p.rule =
    "one case = one seeded plan (bounded 512 B / 4 KiB and unbounded 512 B->2 KiB dropping queues, bursts sized against the "
    "capacity incl. never-fitting sizes, backend stalls, control requests while full — incl. a backtrace initialised, filled and flushed on a "
    "private logger and a blocking logger removal, whose effects are checked —, threads exiting after a burst) under one "
    "seeded schedule; distinct = distinct event hash; non-trivial = >=1 dropped and >=1 accepted statement and >=1 preemption";
  p.real_components = {"LoggerImpl::log_statement (return value)", "dropping SPSC queues", "BackendWorker incl. _check_failure_counter",
                       "ThreadContext failure counter", "flush/backtrace control events"};
  p.stub_components = {"recording sinks", "error_notifier capture", "clock (virtual)", "scheduling (simulator)"};
  p.assumptions = {"sequentially consistent atomics", "the integer following 'Dropped' in a notifier message is the reported count"};
  p.quick_runs = 24000;
  p.thorough_runs = 400000;
  v.push_back(p);
}
} // namespace vs
