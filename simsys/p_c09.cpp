// p_c09.cpp — C09 (end-to-end part): a blocked log call resumes once the backend made room;
// a dropping queue never rejects a fitting statement while its queue is empty.
#include "gen_common.h"
#include "oracle_common.h"
#include "profiles.h"

namespace vs
{
Plan gen_c09(uint64_t seed, int tier)
{
  Rng r(seed);
  Plan p;
  p.profile = "C09";
  p.seed = seed;
  // blocking queues: bounded 512 / 1024, unbounded 256->2048 and 1024->16384; dropping: bounded 512 / 4096
  int fo = r.pick<int>({0, 1, 4, 4, 5, 5, 6, 7});
  p.cfg["fo"] = fo;
  FOInfo fi = fo_info(fo);
  gen_sched(p, r);
  gen_backend(p, r);
  p.cfg["nsinks"] = 1;
  p.cfg["nloggers"] = 1;
  p.cfg["logger0_sinks"] = 1;
  p.cfg["logger0_clock"] = 0;
  fix_timescale(p);
  int nthreads = static_cast<int>(r.range(1, 2));
  p.threads.resize(static_cast<size_t>(nthreads));
  size_t const cap = fi.reach_cap();
  for (int t = 0; t < nthreads; ++t)
  {
    auto& ops = p.threads[static_cast<size_t>(t)];
    int rounds = static_cast<int>(r.range(1, tier ? 6 : 4));
    for (int k = 0; k < rounds; ++k)
    {
      // history of arbitrary statements: any sizes, any amount consumed
      int n = static_cast<int>(r.range(0, 12));
      for (int i = 0; i < n; ++i)
      {
        size_t total = r.chance(2, 3) ? static_cast<size_t>(r.range(44, 44 + 60))
                                      : static_cast<size_t>(r.range(44, static_cast<int64_t>(cap * 9 / 10)));
        ops.push_back(Op{OP_LOG, 0, 0, 4, static_cast<int64_t>(r.next() >> 8), static_cast<int64_t>(total - 44), 0});
      }
      if (fi.dropping)
      {
        // let the backend drain: flush, then idle
        ops.push_back(Op{OP_FLUSH, 0, 100});
        ops.push_back(Op{OP_SLEEP, p.cfg["sleep_ns"] * 3 + 20000});
      }
      else if (r.chance(1, 2))
      {
        ops.push_back(Op{OP_SLEEP, r.pick<int64_t>({500, 5000, 300000})});
      }
      // then one statement of any size up to the capacity, biased to the last few percent
      size_t total;
      uint32_t c = r.below(100);
      if (c < 50)
      {
        total = cap - r.below(static_cast<uint32_t>(cap / 16));
      }
      else if (c < 65)
      {
        total = cap;
      }
      else
      {
        total = static_cast<size_t>(r.range(44, static_cast<int64_t>(cap)));
      }
      ops.push_back(Op{OP_LOG, 0, 0, 4, static_cast<int64_t>(r.next() >> 8), static_cast<int64_t>(total - 44), 0});
    }
  }
  for (int t = 1; t < nthreads; ++t)
  {
    p.threads[0].insert(p.threads[0].begin(), Op{OP_SPAWN, t});
    p.threads[0].push_back(Op{OP_JOIN, t});
  }
  if (r.chance(1, 3))
  {
    gen_stalls(p, r, 1, 3000);
  }
  return p;
}

Verdict judge_c09(Plan const& p, History const& h, RunInfoLite const& ri)
{
  Verdict v;
  Model m = Model::build(p, h);
  FOInfo fi = fo_info(static_cast<int>(p.get("fo", 4)));
  uint64_t near_cap = 0, blocked_notices = 0;
  for (auto const& kv : m.issued)
  {
    if (encoded_size_of(p, kv.first) * 16 >= fi.reach_cap() * 15)
    {
      ++near_cap;
    }
  }
  for (auto const& n : m.notifier)
  {
    if (n.find("blocking occurrences") != std::string::npos)
    {
      ++blocked_notices;
    }
  }
  if (ri.stuck || !ri.completed)
  {
    // which thread is inside a log call, and how large is the statement
    for (size_t t = 0; t < h.status.size(); ++t)
    {
      OpStatus const& st = h.status[t];
      if (st.started && !st.finished && st.in_op && st.op_kind == OP_LOG && ri.stuck_reason == "stuck")
      {
        int64_t id = static_cast<int64_t>(t) * 1000000 + st.op_index;
        size_t sz = encoded_size_of(p, id);
        if (sz <= fi.reach_cap() && !fi.dropping)
        {
          return violation("blocked_log_call_never_resumes",
                           "thread " + std::to_string(t) + " is still inside the log call of id " + std::to_string(id) +
                             " (encoded size " + std::to_string(sz) + ", capacity " + std::to_string(fi.reach_cap()) +
                             ") after the fair phase: " + ri.where,
                           {{"size_within_5pct_of_capacity", sz * 100 >= fi.reach_cap() * 95 ? "1" : "0"}});
        }
      }
    }
    v.kind = Verdict::INCONCLUSIVE;
    v.tag = "did_not_finish:" + ri.stuck_reason;
    v.detail = ri.where;
    return v;
  }
  if (fi.dropping)
  {
    // a statement issued right after FLUSH + idle sleep meets an empty queue and an idle backend
    for (size_t t = 0; t < p.threads.size(); ++t)
    {
      auto const& ops = p.threads[t];
      for (size_t i = 2; i < ops.size(); ++i)
      {
        if (ops[i].k == OP_LOG && ops[i - 1].k == OP_SLEEP && ops[i - 2].k == OP_FLUSH && p.threads.size() == 1)
        {
          int64_t id = static_cast<int64_t>(t) * 1000000 + static_cast<int64_t>(i);
          auto it = m.issued.find(id);
          if (it != m.issued.end() && it->second.result == 0 && encoded_size_of(p, id) <= fi.reach_cap())
          {
            size_t sz = encoded_size_of(p, id);
            return violation("fitting_statement_dropped_on_empty_queue",
                             "id " + std::to_string(id) + " (encoded size " + std::to_string(sz) + ", capacity " +
                               std::to_string(fi.reach_cap()) + ") was rejected although the queue was empty and the backend idle",
                             {{"size_within_5pct_of_capacity", sz * 100 >= fi.reach_cap() * 95 ? "1" : "0"}});
          }
          v.probes["dropping_checked_on_empty_queue"]++;
        }
      }
    }
  }
  DeliveryRules rules;
  rules.expect = [](Issued const& is, int sink) -> int { return (is.result == 1 && sink == 0) ? 1 : 0; };
  Verdict d = check_delivery(m, rules);
  if (d.kind != Verdict::OK)
  {
    d.tag = "delivery:" + d.tag;
    return d;
  }
  v.nontrivial = near_cap >= 1;
  v.probes["statements_within_6pct_of_capacity"] = near_cap;
  v.probes["blocking_notices"] = blocked_notices;
  v.probes["dropping_checked_on_empty_queue"] += 0;
  return v;
}

void register_c09(std::vector<Profile>& v)
{
  Profile p;
  p.id = "C09";
  p.title = "A blocked log call resumes once the backend made room; no stall on empty queue";
  p.gen = gen_c09;
  p.judge = judge_c09;
  p.rule =
    "one case = one seeded plan: histories of statements of arbitrary sizes followed by one statement of any encoded size up to "
    "the (maximum) capacity, biased to the last 6 %, on blocking queues (liveness judged in the fair phase through the "
    "interposed retry loop) and on dropping queues after flush + backend idle; distinct = distinct event hash; non-trivial = "
    ">=1 statement within 6 % of the capacity";
  p.real_components = {"LoggerImpl::log_statement retry loop", "Bounded/UnboundedSPSCQueue", "BackendWorker read/commit pass"};
  p.stub_components = {"recording sink", "clock (virtual)", "scheduling (simulator)"};
  p.assumptions = {"a statement's encoded size is 44 bytes + payload for the harness call site (checked against quill's own size assert)",
                   "liveness verdict = still inside the log call after 1.5 M fair round-robin steps with time advancing"};
  p.quick_runs = 12000;
  p.thorough_runs = 300000;
  v.push_back(p);
}
} // namespace vs
