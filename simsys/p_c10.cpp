// p_c10.cpp — C10: a statement that cannot be formatted or a sink that throws disturbs nothing else.
#include "gen_common.h"
#include "oracle_common.h"
#include "profiles.h"

namespace vs
{
Plan gen_c10(uint64_t seed, int tier)
{
  Rng r(seed);
  Plan p;
  p.profile = "C10";
  p.seed = seed;
  int fo = r.pick<int>({0, 1, 1, 5});
  p.cfg["fo"] = fo;
  gen_sched(p, r);
  gen_backend(p, r);
  gen_backend_mode(p, r);
  gen_loggers_and_sinks(p, r, 3, 3, false);
  int nsinks = static_cast<int>(p.cfg["nsinks"]);
  bool file_sink = false;
  if (r.chance(1, 4))
  {
    // one real file sink, written through stdio (F3)
    p.cfg["sink" + std::to_string(nsinks - 1) + "_type"] = Rng(seed ^ 0x1505).chance(1, 3) ? 2 : 1; // (2 = JsonFileSink)
    p.cfg["sink" + std::to_string(nsinks - 1) + "_notifier"] = Rng(seed ^ 0x77).chance(1, 3) ? 1 : 0; // with FileEventNotifier callbacks
    if (p.cfg["sink" + std::to_string(nsinks - 1) + "_type"] == 1 && Rng(seed ^ 0x9907).chance(1, 3))
    {
      // a RotatingFileSink: the destination is the set of its files (an fwrite failure costs at most the one statement there too)
      p.cfg["sink" + std::to_string(nsinks - 1) + "_rotating"] = Rng(seed ^ 0x9908).pick<int64_t>({512, 700, 1024, 2048});
    }
    file_sink = true;
  }
  fix_timescale(p);
  int nloggers = static_cast<int>(p.cfg["nloggers"]);
  // one extra logger that never gets init_backtrace (F6)
  int bt_logger = nloggers;
  p.cfg["nloggers"] = nloggers + 1;
  p.cfg["logger" + std::to_string(bt_logger) + "_sinks"] = 1;
  p.cfg["logger" + std::to_string(bt_logger) + "_clock"] = 0;

  // swarm: a random subset of fault kinds is enabled per run
  bool en_sink = r.chance(2, 3), en_fmt = r.chance(2, 3), en_user_std = r.chance(1, 2), en_user_nonstd = r.chance(1, 2),
       en_bt = r.chance(1, 3), en_flush = r.chance(1, 3), en_fwrite = file_sink && r.chance(2, 3);
  int nthreads = static_cast<int>(r.range(1, 3));
  p.threads.resize(static_cast<size_t>(nthreads));
  for (int t = 0; t < nthreads; ++t)
  {
    auto& ops = p.threads[static_cast<size_t>(t)];
    int n = static_cast<int>(r.range(4, tier ? 60 : 30));
    for (int i = 0; i < n; ++i)
    {
      int lg = static_cast<int>(r.below(static_cast<uint32_t>(nloggers)));
      int64_t fb = 0;
      uint32_t c = r.below(100);
      if (c < 18)
      {
        uint32_t kind = r.below(7);
        if (kind == 0 && en_sink)
        {
          fb = int64_t{1} << r.below(static_cast<uint32_t>(nsinks));
        }
        else if (kind == 1 && en_fmt)
        {
          fb = FB_FORMAT_MISMATCH;
        }
        else if (kind == 2 && en_user_std)
        {
          fb = FB_FMT_THROW_STD;
        }
        else if (kind == 3 && en_user_nonstd)
        {
          fb = r.chance(1, 2) ? FB_FMT_THROW_INT : FB_FMT_THROW_STRUCT;
        }
        else if (kind == 4 && en_flush)
        {
          fb = FB_FLUSH_THROW;
        }
        else if (kind == 5 && en_fwrite)
        {
          fb = FB_FWRITE_FAIL;
          if (p.get("sink" + std::to_string(nsinks - 1) + "_type", 0) == 2 && r.chance(1, 2))
          {
            // the JSON sink (the last one) rejects this statement in its before_write callback
            fb = FB_BEFORE_WRITE_THROW | (int64_t{1} << (nsinks - 1));
          }
        }
        else if (kind == 6 && en_bt)
        {
          ops.push_back(Op{OP_BT_LOG, bt_logger, 0, 0, static_cast<int64_t>(r.next() >> 8), 8, 0});
          continue;
        }
      }
      ops.push_back(Op{OP_LOG, lg, static_cast<int64_t>(r.below(4)), r.range(2, 8), static_cast<int64_t>(r.next() >> 8),
                       static_cast<int64_t>(r.below(60)), fb});
      if (fb && r.chance(1, 2))
      {
        // a flush right after the faulty region
        ops.push_back(Op{OP_FLUSH, lg, 100});
      }
      else if (r.chance(1, 20))
      {
        ops.push_back(Op{OP_FLUSH, lg, 100});
      }
    }
    ops.push_back(Op{OP_FLUSH, 0, 100});
  }
  if (file_sink && p.get("sink" + std::to_string(nsinks - 1) + "_type", 0) == 1 && Rng(seed ^ 0xde1e).chance(1, 3))
  {
    // somebody deletes the log file while the program runs; the sink re-opens it at its next flush, and its after_open
    // callback throws then: reported, and everything logged afterwards is in the new file
    int lgf = -1;
    for (int l = 0; l < nloggers; ++l)
    {
      if ((p.get("logger" + std::to_string(l) + "_sinks", 0) >> (nsinks - 1)) & 1)
      {
        lgf = l;
      }
    }
    if (lgf >= 0)
    {
      p.cfg["sink" + std::to_string(nsinks - 1) + "_notifier"] = 2;
      Rng rr(seed ^ 0xde1f);
      auto& mops = p.threads[0];
      size_t pos = mops.empty() ? 0 : rr.below(static_cast<uint32_t>(mops.size() + 1));
      std::vector<Op> fr;
      auto small = [&]() { return Op{OP_LOG, lgf, 0, 8, static_cast<int64_t>(rr.next() >> 8), static_cast<int64_t>(rr.below(20)), 0}; };
      fr.push_back(small());
      fr.push_back(Op{OP_FLUSH, lgf, 100});
      fr.push_back(Op{OP_DELETE_FILE, nsinks - 1});
      fr.push_back(small());
      fr.push_back(Op{OP_FLUSH, lgf, 100});
      fr.push_back(small());
      fr.push_back(small());
      fr.push_back(Op{OP_FLUSH, lgf, 100});
      mops.insert(mops.begin() + static_cast<long>(pos), fr.begin(), fr.end());
    }
  }
  for (int t = 1; t < nthreads; ++t)
  {
    p.threads[0].insert(p.threads[0].begin(), Op{OP_SPAWN, t});
    p.threads[0].push_back(Op{OP_JOIN, t});
  }
  if (r.chance(1, 3))
  {
    gen_stalls(p, r, 1, 2000);
  }
  return p;
}

Verdict judge_c10(Plan const& p, History const& h, RunInfoLite const& ri)
{
  Verdict v;
  Model m = Model::build(p, h);
  int nsinks = static_cast<int>(p.get("nsinks", 1));
  std::vector<int> sink_type(8, 0);
  for (int i = 0; i < 8; ++i)
  {
    sink_type[static_cast<size_t>(i)] = static_cast<int>(p.get("sink" + std::to_string(i) + "_type", 0));
  }
  uint64_t faults_total = 0;
  for (int i = 1; i <= 6; ++i)
  {
    faults_total += ri.faults_fired[i];
  }
  faults_total += ri.fwrite_faults;
  // which fault kinds does the plan contain (for the characterisation of a stuck run)
  bool has_nonstd = false, has_std = false, has_sink = false, has_fmt = false;
  for (auto const& kv : m.issued)
  {
    int64_t fb = kv.second.fault_bits;
    has_nonstd |= (fb & (FB_FMT_THROW_INT | FB_FMT_THROW_STRUCT)) != 0;
    has_std |= (fb & FB_FMT_THROW_STD) != 0;
    has_sink |= (fb & FB_SINK_THROW_MASK) != 0;
    has_fmt |= (fb & FB_FORMAT_MISMATCH) != 0;
  }
  if (ri.stuck || !ri.completed)
  {
    if (ri.stuck_reason == "stuck")
    {
      // the backend keeps running and flush_log() still returns: judged in the fair phase
      bool in_flush_or_end = ri.where.find(":FLUSH#") != std::string::npos || ri.where.find(":STOP#") != std::string::npos;
      bool in_log = ri.where.find(":LOG#") != std::string::npos;
      if (in_flush_or_end || in_log)
      {
        uint64_t unhandled = 0;
        for (auto const& n : m.notifier)
        {
          if (n.find("Caught unhandled exception") != std::string::npos)
          {
            ++unhandled;
          }
        }
        return violation("backend_makes_no_progress_after_fault",
                         "fair phase exhausted: " + ri.where + "; notifier messages: " + std::to_string(m.notifier.size()) +
                           " ('Caught unhandled exception': " + std::to_string(unhandled) + ")",
                         {{"non_std_exception_from_user_formatter", has_nonstd ? "1" : "0"},
                          {"unhandled_exception_notices", unhandled > 100 ? "many" : "few"}});
      }
    }
    v.kind = Verdict::INCONCLUSIVE;
    v.tag = "did_not_finish:" + ri.stuck_reason;
    v.detail = ri.where;
    return v;
  }
  // the sink a statement may be missing from: the one that threw and the sinks after it (same logger)
  DeliveryRules rules;
  rules.unknown_ok = [](std::string const& msg) { return msg.find("Could not format log statement") != std::string::npos; };
  rules.allow_backtrace_replay = false;
  rules.expect = [&](Issued const& is, int sink) -> int
  {
    if (sink_type[static_cast<size_t>(sink)] != 0)
    {
      return 0; // file sinks are checked through their content below
    }
    if (is.kind == 1)
    {
      return 0; // LOG_BACKTRACE without init_backtrace: skipped
    }
    if (is.result != 1)
    {
      return 0;
    }
    int64_t mask = m.mask_of_logger_at(is.logger, is.invoke_seq);
    if (!((mask >> sink) & 1))
    {
      return 0;
    }
    if (is.fault_bits & (FB_FORMAT_MISMATCH | FB_FMT_THROW_STD | FB_FMT_THROW_INT | FB_FMT_THROW_STRUCT))
    {
      return -1; // error text in place of the message (unknown id) or skipped; never the normal text
    }
    int64_t throwers = is.fault_bits & FB_SINK_THROW_MASK & mask;
    if (throwers)
    {
      int first = 0;
      while (!((throwers >> first) & 1))
      {
        ++first;
      }
      return sink >= first ? -1 : 1;
    }
    return 1;
  };
  Verdict d = check_delivery(m, rules);
  if (d.kind != Verdict::OK)
  {
    d.fields["fault_kinds"] = std::string(has_sink ? "sink," : "") + (has_fmt ? "fmt," : "") + (has_std ? "user_std," : "") +
      (has_nonstd ? "user_nonstd," : "");
    return d;
  }
  // a faulty statement never shows its normal text
  for (auto const& w : m.all_writes)
  {
    if (w.id >= 0)
    {
      auto it = m.issued.find(w.id);
      if (it != m.issued.end() && (it->second.fault_bits & (FB_FMT_THROW_STD | FB_FMT_THROW_INT | FB_FMT_THROW_STRUCT)))
      {
        return violation("faulty_statement_written_normally", "id " + std::to_string(w.id));
      }
    }
  }
  // JSON file sink: every line is exactly one JSON object (a statement whose write failed must leave nothing behind that
  // is glued to the next one); the statements with named arguments carry their id ("sid"): each at most once, in thread
  // order, at most one missing per injected fwrite failure
  for (int s = 0; s < nsinks; ++s)
  {
    if (sink_type[static_cast<size_t>(s)] != 2)
    {
      continue;
    }
    std::string const* content = nullptr;
    for (auto const& e : h.ev)
    {
      if (e.type == EV_FILE_SNAP && e.a == s)
      {
        content = &e.s;
      }
    }
    if (!content)
    {
      continue;
    }
    std::map<int, std::vector<int64_t>> got;
    std::set<int64_t> seen;
    size_t pos = 0;
    uint64_t objects = 0;
    while (pos < content->size())
    {
      size_t nl = content->find('\n', pos);
      if (nl == std::string::npos)
      {
        nl = content->size();
      }
      std::string line = content->substr(pos, nl - pos);
      pos = nl + 1;
      if (line.empty())
      {
        continue;
      }
      // one top-level object: string-aware brace scan
      int depth = 0;
      bool in_str = false, esc = false, closed = false, bad = line[0] != '{';
      for (size_t k = 0; k < line.size() && !bad; ++k)
      {
        char c = line[k];
        if (closed)
        {
          bad = true; // something follows the end of the object
          break;
        }
        if (in_str)
        {
          if (esc)
          {
            esc = false;
          }
          else if (c == '\\')
          {
            esc = true;
          }
          else if (c == '"')
          {
            in_str = false;
          }
        }
        else if (c == '"')
        {
          in_str = true;
        }
        else if (c == '{')
        {
          ++depth;
        }
        else if (c == '}')
        {
          --depth;
          closed = depth == 0;
        }
      }
      if (bad || !closed || in_str)
      {
        return violation("json_line_is_not_one_object", "file of sink " + std::to_string(s) + ": '" + line.substr(0, 160) + "'");
      }
      ++objects;
      size_t ps = line.find("\"sid\":\"");
      if (ps == std::string::npos)
      {
        continue;
      }
      int64_t id = std::atoll(line.c_str() + ps + 7);
      auto it = m.issued.find(id);
      if (it == m.issued.end() || it->second.site != 3)
      {
        return violation("garbled_line_in_file", "JSON file of sink " + std::to_string(s) + " names an unknown statement: '" + line.substr(0, 160) + "'");
      }
      if (!seen.insert(id).second)
      {
        return violation("duplicate_line_in_file", "id " + std::to_string(id) + " (JSON)");
      }
      got[it->second.thread].push_back(id);
    }
    uint64_t missing = 0;
    for (int64_t id : m.issue_order)
    {
      Issued const& is = m.issued.at(id);
      if (is.result != 1 || is.kind != 0 || is.site != 3 || is.fault_bits != 0 || !((m.mask_of_logger_at(is.logger, is.invoke_seq) >> s) & 1))
      {
        continue;
      }
      if (!seen.count(id))
      {
        ++missing;
      }
    }
    if (missing > ri.fwrite_faults)
    {
      return violation("statements_missing_from_file", std::to_string(missing) + " named-argument statements missing from the JSON file of sink " +
                                                         std::to_string(s) + " but only " + std::to_string(ri.fwrite_faults) + " fwrite failures were injected");
    }
    for (auto const& kv : got)
    {
      for (size_t i = 1; i < kv.second.size(); ++i)
      {
        if (m.issued.at(kv.second[i]).invoke_seq < m.issued.at(kv.second[i - 1]).invoke_seq)
        {
          return violation("file_lines_out_of_thread_order", "sink " + std::to_string(s) + " (JSON)");
        }
      }
    }
    v.probes["json_file_sinks_checked"]++;
    v.probes["json_objects_checked"] += objects;
  }
  // file sink: every non-faulty statement present, in thread order, at most one missing per injected fwrite failure
  for (int s = 0; s < nsinks; ++s)
  {
    if (sink_type[static_cast<size_t>(s)] != 1)
    {
      continue;
    }
    std::string const* content = nullptr;
    for (auto const& e : h.ev)
    {
      if (e.type == EV_FILE_SNAP && e.a == s)
      {
        content = &e.s;
      }
    }
    if (!content)
    {
      continue;
    }
    std::map<int, std::vector<int64_t>> got;
    size_t pos = 0;
    std::set<int64_t> seen;
    while (pos < content->size())
    {
      size_t nl = content->find('\n', pos);
      if (nl == std::string::npos)
      {
        nl = content->size();
      }
      std::string line = content->substr(pos, nl - pos);
      pos = nl + 1;
      if (line.empty())
      {
        continue;
      }
      int64_t id = -1;
      if (line[0] == '#')
      {
        id = std::atoll(line.c_str() + 1);
      }
      auto it = m.issued.find(id);
      if (line[0] != '#' || it == m.issued.end())
      {
        if (line.find("Could not format log statement") != std::string::npos)
        {
          continue;
        }
        return violation("garbled_line_in_file", "file of sink " + std::to_string(s) + ": '" + line.substr(0, 100) + "'");
      }
      if (line != it->second.expected)
      {
        return violation("garbled_line_in_file", "file of sink " + std::to_string(s) + ": '" + line.substr(0, 100) +
                                                   "' expected '" + it->second.expected.substr(0, 100) + "'");
      }
      if (!seen.insert(id).second)
      {
        return violation("duplicate_line_in_file", "id " + std::to_string(id));
      }
      got[it->second.thread].push_back(id);
    }
    // If the file was deleted under the sink: what was issued before the flush_log() that followed the re-open returned may
    // be gone with the old file; if the sink never re-opened it, nothing is demanded of this file.
    uint64_t demand_after = 0;
    bool deleted = false, nothing_demanded = false;
    {
      uint64_t del_seq = 0, reopen_seq = 0;
      for (auto const& e : h.ev)
      {
        if (e.type == EV_NOTE && e.s == "delete_file" && e.b == s && !del_seq)
        {
          del_seq = e.seq;
        }
        else if (e.type == EV_NOTE && e.s == "reopen" && e.b == s && del_seq && !reopen_seq)
        {
          reopen_seq = e.seq;
        }
        else if (e.type == EV_FLUSH_RETURN && reopen_seq && !demand_after)
        {
          demand_after = e.seq;
        }
      }
      deleted = del_seq != 0;
      nothing_demanded = deleted && !demand_after;
    }
    if (deleted)
    {
      v.probes["log_file_deleted_under_the_sink"]++;
    }
    uint64_t missing = 0;
    for (int64_t id : m.issue_order)
    {
      Issued const& is = m.issued.at(id);
      if (is.result != 1 || is.kind == 1 || !((m.mask_of_logger_at(is.logger, is.invoke_seq) >> s) & 1))
      {
        continue;
      }
      if (nothing_demanded || (deleted && is.invoke_seq < demand_after))
      {
        continue;
      }
      if (is.fault_bits & (FB_FORMAT_MISMATCH | FB_FMT_THROW_STD | FB_FMT_THROW_INT | FB_FMT_THROW_STRUCT))
      {
        continue;
      }
      int64_t throwers = is.fault_bits & FB_SINK_THROW_MASK & m.mask_of_logger_at(is.logger, is.invoke_seq);
      if (throwers && (throwers & ((int64_t{1} << s) - 1)))
      {
        continue; // an earlier sink of the logger threw for this statement
      }
      if (!seen.count(id))
      {
        ++missing;
      }
    }
    if (missing > ri.fwrite_faults)
    {
      return violation("statements_missing_from_file", std::to_string(missing) + " statements missing from the file of sink " +
                                                         std::to_string(s) + " but only " + std::to_string(ri.fwrite_faults) +
                                                         " fwrite failures were injected");
    }
    for (auto const& kv : got)
    {
      for (size_t i = 1; i < kv.second.size(); ++i)
      {
        if (m.issued.at(kv.second[i]).invoke_seq < m.issued.at(kv.second[i - 1]).invoke_seq)
        {
          return violation("file_lines_out_of_thread_order", "sink " + std::to_string(s));
        }
      }
    }
    v.probes["file_sinks_checked"]++;
  }
  // flush_log() still means "written and flushed" for every sink that did not itself fail: at each flush return,
  // every statement of the caller that was written to a recording sink has a later flush_sink call (or that sink's
  // own injected flush failure) before the return
  {
    std::vector<std::vector<uint64_t>> fl(m.by_sink.size());
    for (auto const& e : h.ev)
    {
      if ((e.type == EV_SINK_FLUSH || (e.type == EV_SINK_THROW && e.c == 1)) && e.a >= 0 && static_cast<size_t>(e.a) < fl.size())
      {
        fl[static_cast<size_t>(e.a)].push_back(e.seq);
      }
    }
    std::map<int, uint64_t> open_flush;
    for (auto const& e : h.ev)
    {
      if (e.type == EV_FLUSH_INVOKE)
      {
        open_flush[e.thread] = e.seq;
      }
      else if (e.type == EV_FLUSH_RETURN && open_flush.count(e.thread))
      {
        uint64_t I = open_flush[e.thread], R = e.seq;
        for (size_t s2 = 0; s2 < m.by_sink.size(); ++s2)
        {
          uint64_t last_write = 0;
          int64_t last_id = -1;
          for (auto const& w : m.by_sink[s2])
          {
            auto it = m.issued.find(w.id);
            if (it != m.issued.end() && it->second.thread == e.thread && it->second.return_seq < I && w.seq < R)
            {
              last_write = w.seq;
              last_id = w.id;
            }
          }
          if (last_write == 0)
          {
            continue;
          }
          bool ok = false;
          for (uint64_t f : fl[s2])
          {
            if (f > last_write && f < R)
            {
              ok = true;
            }
          }
          if (!ok)
          {
            return violation("flush_returned_with_a_healthy_sink_unflushed",
                             "flush_log() of thread " + std::to_string(e.thread) + " returned at event " + std::to_string(R) +
                               " but sink " + std::to_string(s2) + " was not flushed after id " + std::to_string(last_id) +
                               " (written at event " + std::to_string(last_write) + ")");
          }
          v.probes["flush_returns_sink_pairs_checked"]++;
        }
      }
    }
  }
  // every fault is reported through the error notifier
  uint64_t reports = 0;
  for (auto const& n : m.notifier)
  {
    if (n.find("Quill INFO") == std::string::npos)
    {
      ++reports;
    }
  }
  uint64_t bt_faults = 0;
  for (auto const& kv : m.issued)
  {
    if (kv.second.kind == 1 && kv.second.result == 1)
    {
      ++bt_faults;
    }
  }
  uint64_t sink_throws = 0;
  for (auto const& e : h.ev)
  {
    if (e.type == EV_SINK_THROW)
    {
      ++sink_throws;
    }
  }
  uint64_t expected_reports = sink_throws + ri.faults_fired[4] + ri.faults_fired[5] + bt_faults + ri.fwrite_faults;
  if (reports < expected_reports)
  {
    return violation("fault_not_reported", std::to_string(expected_reports) + " faults fired but only " + std::to_string(reports) +
                                             " error notifier calls");
  }
  v.nontrivial = expected_reports >= 1 && ri.preemptions >= 1;
  v.probes["sink_write_or_flush_throws"] = sink_throws;
  v.probes["format_mismatch_statements"] = ri.faults_fired[4];
  v.probes["throwing_user_formatter_statements"] = ri.faults_fired[5];
  v.probes["backtrace_without_init_statements"] = bt_faults;
  v.probes["fwrite_failures"] = ri.fwrite_faults;
  {
    int64_t rot = 0;
    for (auto const& e : h.ev)
    {
      if (e.type == EV_FILE_SNAP)
      {
        rot = std::max(rot, e.b);
      }
    }
    v.probes["rotated_files_in_a_rotating_destination"] = static_cast<uint64_t>(rot);
  }
  v.probes["notifier_reports"] = reports;
  v.probes["file_sinks_checked"] += 0;
  v.probes["flush_returns_sink_pairs_checked"] += 0;
  return v;
}

void register_c10(std::vector<Profile>& v)
{
  Profile p;
  p.id = "C10";
  p.title = "A statement that cannot be formatted or a sink that throws disturbs nothing else";
  p.gen = gen_c10;
  p.judge = judge_c10;
  p.rule =
    "one case = one seeded plan: histories from 1-3 threads over 1-3 loggers with 1-3 sinks, with faults attached to chosen "
    "statements (sink write throws on sink k, sink flush throws, fwrite ENOSPC on a real FileSink / RotatingFileSink, run-time format mismatch, "
    "user formatter throwing std::runtime_error / int / a struct, LOG_BACKTRACE without init), a random subset of fault kinds "
    "enabled per run, flushes after faulty regions; distinct = distinct event hash; non-trivial = >=1 fault fired and >=1 preemption";
  p.real_components = {"BackendWorker decode/format/dispatch error paths", "catch blocks in run()/_process_lowest_timestamp_transit_event/"
                       "_flush_and_run_active_sinks", "StreamSink::safe_fwrite", "DeferredFormatCodec", "queues, frontend"};
  p.stub_components = {"recording sinks that throw on plan-chosen statements", "fwrite (interposed: fails with ENOSPC on plan-chosen calls)",
                       "clock (virtual)", "scheduling (simulator)"};
  p.assumptions = {"sequentially consistent atomics", "a statement whose formatting failed is recognised by quill's 'Could not format log statement' text"};
  p.quick_runs = 20000;
  p.thorough_runs = 400000;
  v.push_back(p);
}
} // namespace vs
