// p_c16.cpp — C16: a statement reaches a sink iff its level passes logger, sink and sink filters.
#include "gen_common.h"
#include "oracle_common.h"
#include "profiles.h"

namespace vs
{
Plan gen_c16(uint64_t seed, int tier)
{
  Rng r(seed);
  Plan p;
  p.profile = "C16";
  p.seed = seed;
  int fo = r.pick<int>({0, 1, 1, 5});
  p.cfg["fo"] = fo;
  gen_sched(p, r);
  gen_backend(p, r);
  gen_backend_mode(p, r);
  p.cfg["transit_cap"] = r.pick<int64_t>({1, 2, 4}); // small: transit slots are reused by statements of different kinds
  gen_loggers_and_sinks(p, r, 3, 3, false);
  int nsinks = static_cast<int>(p.cfg["nsinks"]);
  int nloggers = static_cast<int>(p.cfg["nloggers"]);
  for (int i = 0; i < nsinks; ++i)
  {
    if (r.chance(1, 2))
    {
      p.cfg["sink" + std::to_string(i) + "_override"] = 1;
    }
  }
  fix_timescale(p);
  int nthreads = static_cast<int>(r.range(1, 3));
  p.threads.resize(static_cast<size_t>(nthreads));
  int phases = static_cast<int>(r.range(1, tier ? 5 : 3));
  int64_t barrier = 1;
  for (int ph = 0; ph < phases; ++ph)
  {
    // sink thresholds and filters change only here: every thread has flushed, nothing is in flight
    auto& mo = p.threads[0];
    int nchanges = static_cast<int>(r.range(0, 3));
    for (int c = 0; c < nchanges; ++c)
    {
      if (r.chance(1, 2))
      {
        mo.push_back(Op{OP_SINK_LEVEL, static_cast<int64_t>(r.below(static_cast<uint32_t>(nsinks))), r.range(0, 8)});
      }
      else
      {
        int64_t kind = r.range(0, 2);
        int64_t param = kind == 0 ? r.range(1, 8) : (kind == 1 ? r.range(0, 1) : r.range(0, nloggers - 1));
        mo.push_back(Op{OP_ADD_FILTER, static_cast<int64_t>(r.below(static_cast<uint32_t>(nsinks))), kind, param});
      }
    }
    for (int t = 0; t < nthreads; ++t)
    {
      auto& ops = p.threads[static_cast<size_t>(t)];
      ops.push_back(Op{OP_BARRIER, barrier, nthreads});
      int n = static_cast<int>(r.range(3, tier ? 40 : 20));
      for (int i = 0; i < n; ++i)
      {
        int lg = static_cast<int>(r.below(static_cast<uint32_t>(nloggers)));
        uint32_t c = r.below(100);
        if (c < 12)
        {
          // logger level changes race with logging
          // (10 = LogLevel::None: nothing passes, not even a backtrace statement)
          ops.push_back(Op{OP_SET_LEVEL, lg, r.pick<int64_t>({0, 2, 3, 4, 4, 5, 6, 7, 8, 10, 10})});
        }
        else if (c < 50)
        {
          // real macros: static levels, dynamic level, named arguments
          // (3 = LOG_BACKTRACE: level Backtrace, above Critical and below None; without init_backtrace it is never written)
          ops.push_back(Op{OP_LOG_MACRO, lg, static_cast<int64_t>(r.pick<int>({0, 0, 1, 1, 2, 3})), r.range(0, 8),
                           static_cast<int64_t>(r.next() >> 8), static_cast<int64_t>(r.below(30)), 0});
        }
        else
        {
          ops.push_back(Op{OP_LOG, lg, static_cast<int64_t>(r.below(5)), r.range(0, 8), static_cast<int64_t>(r.next() >> 8),
                           static_cast<int64_t>(r.below(30)), 0});
        }
      }
      ops.push_back(Op{OP_FLUSH, 0, 100});
      ops.push_back(Op{OP_BARRIER, barrier + 1, nthreads});
    }
    barrier += 2;
  }
  for (int t = 1; t < nthreads; ++t)
  {
    p.threads[0].insert(p.threads[0].begin(), Op{OP_SPAWN, t});
    p.threads[0].push_back(Op{OP_JOIN, t});
  }
  return p;
}

namespace
{
bool filter_decide(int kind, int64_t param, int level, int64_t id, std::string const& logger_name)
{
  switch (kind)
  {
  case 0:
    return level >= param;
  case 1:
    return id < 0 || ((id & 1) == (param & 1));
  case 2:
    return logger_name.empty() || (logger_name.back() - '0') != param;
  default:
    return true;
  }
}
} // namespace

Verdict judge_c16(Plan const& p, History const& h, RunInfoLite const& ri)
{
  Verdict v;
  if (ri.stuck || !ri.completed)
  {
    v.kind = Verdict::INCONCLUSIVE;
    v.tag = "did_not_finish:" + ri.stuck_reason;
    v.detail = ri.where;
    return v;
  }
  Model m = Model::build(p, h);
  // logger level timeline: sets with [invoke, return] intervals
  struct SetEv
  {
    int logger;
    int level;
    uint64_t inv, ret;
  };
  std::vector<SetEv> sets;
  {
    std::map<std::pair<int, int>, uint64_t> open; // (thread, logger) -> invoke seq
    for (auto const& e : h.ev)
    {
      if (e.type == EV_SET_LEVEL)
      {
        if (e.c == 0)
        {
          open[{e.thread, static_cast<int>(e.a)}] = e.seq;
        }
        else
        {
          sets.push_back(SetEv{static_cast<int>(e.a) % static_cast<int>(p.get("nloggers", 1)), static_cast<int>(e.b),
                               open[{e.thread, static_cast<int>(e.a)}], e.seq});
        }
      }
    }
  }
  // sink configuration timeline
  struct SinkCfg
  {
    uint64_t seq;
    int sink;
    int kind; // -1 threshold, else filter kind
    int64_t param;
  };
  std::vector<SinkCfg> scfg;
  for (auto const& e : h.ev)
  {
    if (e.type == EV_SINK_LEVEL)
    {
      scfg.push_back(SinkCfg{e.seq, static_cast<int>(e.a), -1, e.b});
    }
    else if (e.type == EV_ADD_FILTER)
    {
      scfg.push_back(SinkCfg{e.seq, static_cast<int>(e.a), static_cast<int>(e.b), e.c});
    }
  }
  uint64_t must_accept = 0, must_reject = 0, either = 0, concurrent_level_changes = 0, filtered_out = 0, below_threshold = 0,
           dynamic_stmts = 0, macro_stmts = 0;
  std::map<int64_t, int> decided; // id -> accepted (1) / rejected (0)
  for (int64_t id : m.issue_order)
  {
    Issued const& is = m.issued.at(id);
    int const lg = is.logger % static_cast<int>(p.get("nloggers", 1));
    // candidate logger levels during the call
    std::vector<int> cands;
    bool initial_possible = true;
    for (auto const& s : sets)
    {
      if (s.logger != lg || s.inv >= is.return_seq)
      {
        continue;
      }
      if (s.ret < is.invoke_seq)
      {
        initial_possible = false; // some set completed before the call
      }
      bool overwritten = false;
      for (auto const& s2 : sets)
      {
        if (s2.logger == lg && s2.inv > s.ret && s2.ret < is.invoke_seq)
        {
          overwritten = true;
        }
      }
      if (!overwritten)
      {
        cands.push_back(s.level);
        if (s.ret > is.invoke_seq)
        {
          ++concurrent_level_changes;
        }
      }
    }
    if (initial_possible)
    {
      cands.push_back(0); // loggers start at TraceL3
    }
    int lo = *std::min_element(cands.begin(), cands.end());
    int hi = *std::max_element(cands.begin(), cands.end());
    bool accepted = is.result == 1;
    if (is.kind == 4 || is.kind == 5)
    {
      ++macro_stmts;
    }
    if (is.kind == 2 || is.kind == 5)
    {
      ++dynamic_stmts;
    }
    if (is.level >= hi)
    {
      ++must_accept;
      if (!accepted)
      {
        return violation("rejected_although_level_passes_logger_level",
                         "id " + std::to_string(id) + " level " + std::to_string(is.level) + " logger " + std::to_string(lg) +
                           " whose level was " + std::to_string(hi) + " (kind " + std::to_string(is.kind) + ")",
                         {{"level_equals_logger_level", is.level == hi ? "1" : "0"}, {"kind", std::to_string(is.kind)}});
      }
    }
    else if (is.level < lo)
    {
      ++must_reject;
      if (accepted)
      {
        return violation("accepted_or_arguments_evaluated_below_logger_level",
                         "id " + std::to_string(id) + " level " + std::to_string(is.level) + " logger " + std::to_string(lg) +
                           " whose level was " + std::to_string(lo) + " (kind " + std::to_string(is.kind) + ")",
                         {{"kind", std::to_string(is.kind)}});
      }
    }
    else
    {
      ++either;
    }
    decided[id] = accepted ? 1 : 0;
  }
  DeliveryRules rules;
  rules.expect = [&](Issued const& is, int sink) -> int
  {
    if (is.result != 1 || is.level == 9)
    {
      return 0; // (a LOG_BACKTRACE statement is stored, and no plan of this profile initialises or flushes a backtrace)
    }
    if (!((m.mask_of_logger_at(is.logger, is.invoke_seq) >> sink) & 1))
    {
      return 0;
    }
    int threshold = 0;
    bool pass = true;
    std::string lname = m.logger_name_at(is.logger, is.invoke_seq);
    for (auto const& c : scfg)
    {
      if (c.sink != sink || c.seq > is.invoke_seq)
      {
        continue;
      }
      if (c.kind < 0)
      {
        threshold = static_cast<int>(c.param);
      }
      else if (!filter_decide(c.kind, c.param, is.level, is.id, lname))
      {
        pass = false;
      }
    }
    if (is.level < threshold)
    {
      ++below_threshold;
      return 0;
    }
    if (!pass)
    {
      ++filtered_out;
      return 0;
    }
    return 1;
  };
  Verdict d = check_delivery(m, rules);
  if (d.kind != Verdict::OK)
  {
    if (d.tag == "unexpected_delivery")
    {
      d.tag = "delivered_to_a_sink_whose_threshold_or_filter_rejects_it";
    }
    else if (d.tag == "lost")
    {
      d.tag = "not_delivered_to_a_sink_that_accepts_it";
    }
    return d;
  }
  v.nontrivial = must_accept >= 1 && must_reject >= 1;
  v.probes["statements_that_must_be_accepted"] = must_accept;
  v.probes["statements_that_must_be_rejected"] = must_reject;
  v.probes["statements_racing_a_level_change"] = either;
  v.probes["sink_threshold_rejections_expected"] = below_threshold;
  v.probes["sink_filter_rejections_expected"] = filtered_out;
  v.probes["dynamic_level_statements"] = dynamic_stmts;
  v.probes["real_macro_statements"] = macro_stmts;
  (void)concurrent_level_changes;
  return v;
}

void register_c16(std::vector<Profile>& v)
{
  Profile p;
  p.id = "C16";
  p.title = "A statement reaches a sink iff its level passes logger, sink and sink filters";
  p.gen = gen_c16;
  p.judge = judge_c16;
  p.rule =
    "one case = one seeded plan: 1-3 threads x 1-3 loggers x 1-3 sinks (own thresholds, 0-3 harness filters by level / id "
    "parity / logger, optional override pattern), phases separated by barriers in which sink configuration changes, statements "
    "at every static level and dynamic levels through the real LOG_* macros (side-effect counter in the first argument) and "
    "through log_statement, named-argument statements mixed in, logger levels changing concurrently, transit buffer capacity 1-4; "
    "distinct = distinct event hash; non-trivial = >=1 statement that must be accepted and >=1 that must be rejected";
  p.real_components = {"QUILL_LOGGER_CALL / QUILL_DYNAMIC_LOGGER_CALL macros", "LoggerBase::should_log_statement", "Sink::apply_all_filters",
                       "BackendWorker::_write_log_statement incl. override formatter", "TransitEvent slot reuse", "PatternFormatter"};
  p.stub_components = {"recording sinks", "filters (harness Filter subclasses)", "clock (virtual)", "scheduling (simulator)"};
  p.assumptions = {"sink thresholds and filters change only at barriers with everything flushed (the property does not define 'the sink's "
                   "threshold at the time of a statement' otherwise)",
                   "a statement racing a logger level change may be accepted or rejected"};
  p.quick_runs = 20000;
  p.thorough_runs = 400000;
  v.push_back(p);
}
} // namespace vs
