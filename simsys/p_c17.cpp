// p_c17.cpp — C17: removing / re-creating loggers never loses statements nor frees state in use.
#include "gen_common.h"
#include "oracle_common.h"
#include "profiles.h"

namespace vs
{
Plan gen_c17(uint64_t seed, int tier)
{
  Rng r(seed);
  Plan p;
  p.profile = "C17";
  p.seed = seed;
  int fo = r.pick<int>({0, 1, 1, 5, 6});
  p.cfg["fo"] = fo;
  gen_sched(p, r);
  gen_backend(p, r);
  gen_backend_mode(p, r);
  int nsinks = static_cast<int>(r.range(2, 4));
  int nslots = static_cast<int>(r.range(2, 3));
  p.cfg["nsinks"] = nsinks;
  p.cfg["nloggers"] = nslots;
  std::vector<bool> valid(static_cast<size_t>(nslots), true), dropped(static_cast<size_t>(nsinks), false);
  std::vector<int64_t> mask(static_cast<size_t>(nslots));
  for (int i = 0; i < nslots; ++i)
  {
    mask[static_cast<size_t>(i)] = r.range(1, (1 << nsinks) - 1);
    p.cfg["logger" + std::to_string(i) + "_sinks"] = mask[static_cast<size_t>(i)];
    p.cfg["logger" + std::to_string(i) + "_clock"] = 0;
  }
  for (int i = 0; i < nsinks; ++i)
  {
    // one sink in five is a real FileSink whose FileEventNotifier callbacks report the closing of its file
    if (Rng(seed ^ static_cast<uint64_t>(0xC17F + i)).chance(1, 5))
    {
      p.cfg["sink" + std::to_string(i) + "_type"] = 1;
      p.cfg["sink" + std::to_string(i) + "_notifier"] = 3;
    }
  }
  fix_timescale(p);
  int nthreads = static_cast<int>(r.range(1, 3));
  p.threads.resize(static_cast<size_t>(nthreads));
  int phases = static_cast<int>(r.range(2, tier ? 6 : 4));
  int64_t barrier = 1;
  int64_t next_name = 10;
  int cur_thread = 0;
  auto log_through = [&](std::vector<Op>& ops, std::vector<int> const& allowed, int n)
  {
    if (allowed.empty())
    {
      return;
    }
    for (int i = 0; i < n; ++i)
    {
      int lg = allowed[r.below(static_cast<uint32_t>(allowed.size()))];
      uint32_t c = r.below(100);
      if (c < 80)
      {
        ops.push_back(Op{OP_LOG, lg, static_cast<int64_t>(r.below(4)), r.range(2, 8), static_cast<int64_t>(r.next() >> 8),
                         static_cast<int64_t>(r.below(60)), 0});
      }
      else if (c < 84)
      {
        ops.push_back(Op{OP_GET_LOGGER, lg});
      }
      else if (c < 87)
      {
        // a CsvWriter scope; the name is private to the issuing thread, cycles reuse it
        // (v2: 0 = file based writer, 1 = writer on a user-supplied shared sink, 2 = a sink-name history through the registry)
        ops.push_back(Op{OP_CSV, static_cast<int64_t>(cur_thread), r.range(0, 6), r.pick<int64_t>({0, 0, 1, 2})});
      }
      else if (c < 93)
      {
        // look a sink of this (valid) logger up by name
        std::vector<int64_t> ss;
        for (int s2 = 0; s2 < nsinks; ++s2)
        {
          if ((mask[static_cast<size_t>(lg)] >> s2) & 1)
          {
            ss.push_back(s2);
          }
        }
        if (!ss.empty())
        {
          ops.push_back(Op{OP_GET_SINK, ss[r.below(static_cast<uint32_t>(ss.size()))]});
        }
      }
      else
      {
        // creating an existing logger again is a lookup: must return the same object
        ops.push_back(Op{OP_CREATE_LOGGER, lg, mask[static_cast<size_t>(lg)], 0, 0});
      }
    }
  };
  for (int ph = 0; ph < phases; ++ph)
  {
    if (nthreads >= 2 && r.chance(1, 3))
    {
      // several threads create the same, not yet existing logger at the same time (between two barriers): all of them
      // must get the same object; afterwards it is a logger like the others
      int const slot = nslots++;
      int64_t const m = r.range(1, (1 << nsinks) - 1);
      int64_t usable = 0;
      for (int s2 = 0; s2 < nsinks; ++s2)
      {
        if (((m >> s2) & 1) && !dropped[static_cast<size_t>(s2)])
        {
          usable |= int64_t{1} << s2;
        }
      }
      if (usable)
      {
        int64_t const name = next_name++;
        int const racers = static_cast<int>(r.range(2, nthreads));
        for (int t = 0; t < nthreads; ++t)
        {
          auto& ops = p.threads[static_cast<size_t>(t)];
          ops.push_back(Op{OP_BARRIER, barrier, nthreads});
          if (t < racers)
          {
            ops.push_back(Op{OP_CREATE_LOGGER, slot, usable, 0, name});
            ops.push_back(Op{OP_LOG, slot, 0, 4, static_cast<int64_t>(r.next() >> 8), static_cast<int64_t>(r.below(30)), 0});
          }
          ops.push_back(Op{OP_BARRIER, barrier + 1, nthreads});
        }
        barrier += 2;
        valid.push_back(true);
        mask.push_back(usable);
        p.cfg["concurrent_creations"] = p.get("concurrent_creations", 0) + 1;
      }
      else
      {
        --nslots;
      }
    }
    std::vector<int> allowed;
    for (int i = 0; i < nslots; ++i)
    {
      if (valid[static_cast<size_t>(i)])
      {
        allowed.push_back(i);
      }
    }
    for (int t = 0; t < nthreads; ++t)
    {
      auto& ops = p.threads[static_cast<size_t>(t)];
      cur_thread = t;
      ops.push_back(Op{OP_BARRIER, barrier, nthreads});
      log_through(ops, allowed, static_cast<int>(r.range(1, tier ? 25 : 12)));
      if (r.chance(1, 4))
      {
        ops.push_back(Op{OP_FLUSH, allowed.empty() ? 0 : allowed[0], 100});
      }
      ops.push_back(Op{OP_BARRIER, barrier + 1, nthreads});
    }
    barrier += 2;
    // removal step by one designated thread; the others keep logging through loggers that are not touched
    int d = static_cast<int>(r.below(static_cast<uint32_t>(nthreads)));
    std::vector<int> touched;
    auto& dops = p.threads[static_cast<size_t>(d)];
    int nact = static_cast<int>(r.range(1, 2));
    for (int a = 0; a < nact && !allowed.empty(); ++a)
    {
      int slot = allowed[r.below(static_cast<uint32_t>(allowed.size()))];
      if (std::find(touched.begin(), touched.end(), slot) != touched.end())
      {
        continue;
      }
      touched.push_back(slot);
      if (r.chance(1, 4))
      {
        // a backend stall around "request enqueued -> logger invalidated -> backend notices"
        dops.push_back(Op{OP_STALL, -1, r.pick<int64_t>({0, 1, 2, 15}), r.range(1, 20), r.pick<int64_t>({2000, 20000})});
      }
      bool blocking = r.chance(3, 5) && !fo_info(fo).dropping ? true : r.chance(1, 2);
      int64_t newmask = 0;
      for (int s = 0; s < nsinks; ++s)
      {
        if (!dropped[static_cast<size_t>(s)] && r.chance(1, 2))
        {
          newmask |= int64_t{1} << s;
        }
      }
      if (blocking)
      {
        dops.push_back(Op{OP_REMOVE_BLOCKING, slot});
        valid[static_cast<size_t>(slot)] = false;
        if (r.chance(2, 3) && newmask)
        {
          // same name, different sinks
          dops.push_back(Op{OP_CREATE_LOGGER, slot, newmask, 0, 0});
          valid[static_cast<size_t>(slot)] = true;
          mask[static_cast<size_t>(slot)] = newmask;
        }
      }
      else
      {
        dops.push_back(Op{OP_REMOVE_LOGGER, slot});
        valid[static_cast<size_t>(slot)] = false;
        if (r.chance(1, 2) && newmask)
        {
          // re-creation under the same name is documented as unsupported after an asynchronous removal: new name
          dops.push_back(Op{OP_CREATE_LOGGER, slot, newmask, 0, next_name++});
          valid[static_cast<size_t>(slot)] = true;
          mask[static_cast<size_t>(slot)] = newmask;
        }
      }
    }
    if (r.chance(1, 4))
    {
      int s = static_cast<int>(r.below(static_cast<uint32_t>(nsinks)));
      if (!dropped[static_cast<size_t>(s)])
      {
        dops.push_back(Op{OP_DROP_SINK_REF, s});
        dropped[static_cast<size_t>(s)] = true;
      }
    }
    std::vector<int> untouched;
    for (int i : allowed)
    {
      if (std::find(touched.begin(), touched.end(), i) == touched.end())
      {
        untouched.push_back(i);
      }
    }
    for (int t = 0; t < nthreads; ++t)
    {
      if (t != d)
      {
        cur_thread = t;
        log_through(p.threads[static_cast<size_t>(t)], untouched, static_cast<int>(r.range(0, 8)));
      }
    }
  }
  // closing barrier so that nobody uses a logger after the last removal step started
  for (int t = 0; t < nthreads; ++t)
  {
    p.threads[static_cast<size_t>(t)].push_back(Op{OP_BARRIER, barrier, nthreads});
  }
  for (int t = 1; t < nthreads; ++t)
  {
    p.threads[0].insert(p.threads[0].begin(), Op{OP_SPAWN, t});
    p.threads[0].push_back(Op{OP_JOIN, t});
  }
  return p;
}

Verdict judge_c17(Plan const& p, History const& h, RunInfoLite const& ri)
{
  Verdict v;
  Model m = Model::build(p, h);
  if (ri.stuck || !ri.completed)
  {
    if (ri.stuck_reason == "stuck" && ri.where.find(":REMOVE_BLOCKING#") != std::string::npos &&
        ri.where.find(":LOG#") == std::string::npos)
    {
      return violation("blocking_removal_never_returns", "fair phase exhausted: " + ri.where);
    }
    v.kind = Verdict::INCONCLUSIVE;
    v.tag = "did_not_finish:" + ri.stuck_reason;
    v.detail = ri.where;
    return v;
  }
  std::vector<int> sink_type(8, 0);
  for (int i = 0; i < 8; ++i)
  {
    sink_type[static_cast<size_t>(i)] = static_cast<int>(p.get("sink" + std::to_string(i) + "_type", 0));
  }
  DeliveryRules rules;
  rules.expect = [&m, &sink_type](Issued const& is, int sink) -> int
  {
    if (sink_type[static_cast<size_t>(sink)] == 1)
    {
      return 0; // file sinks do not record writes (their files are judged below)
    }
    if (is.result != 1)
    {
      return 0;
    }
    return ((m.mask_of_logger_at(is.logger, is.invoke_seq) >> sink) & 1) ? 1 : 0;
  };
  Verdict d = check_delivery(m, rules);
  if (d.kind != Verdict::OK)
  {
    return d;
  }
  int nsinks = static_cast<int>(p.get("nsinks", 1));
  uint64_t sink_lookups = 0, csv_scopes = 0, file_sinks_checked = 0, file_statements_checked = 0;
  uint64_t removals = 0, blocking = 0, recreated = 0, lookups = 0, sinks_destroyed = 0, sinks_kept = 0;
  // per slot: current mask (0 = removed)
  std::map<int, int64_t> cur_mask;
  for (int i = 0; i < p.get("nloggers", 1); ++i)
  {
    cur_mask[i] = m.mask_of_logger_at(i, 0);
  }
  std::vector<bool> user_ref(static_cast<size_t>(nsinks), true);
  std::vector<uint64_t> dtor_seq(static_cast<size_t>(nsinks), 0);
  for (auto const& e : h.ev)
  {
    switch (e.type)
    {
    case EV_REMOVE_LOGGER:
      if (e.c == 1)
      {
        ++removals;
        cur_mask[static_cast<int>(e.a)] = 0;
        if (e.b)
        {
          ++blocking;
          if (e.s != "gone")
          {
            return violation("logger_still_found_after_blocking_removal",
                             "remove_logger_blocking returned but get_logger(name) still finds logger slot " + std::to_string(e.a));
          }
        }
      }
      break;
    case EV_CREATE_LOGGER:
      if (e.c == 1)
      {
        if (cur_mask[static_cast<int>(e.a)] == 0 && e.d > 1)
        {
          ++recreated;
        }
        cur_mask[static_cast<int>(e.a)] = e.b;
      }
      break;
    case EV_GET_LOGGER:
      ++lookups;
      if (!e.b || !e.c)
      {
        return violation("lookup_not_idempotent", "looking up / re-creating valid logger slot " + std::to_string(e.a) +
                                                    (e.b ? " returned a different object" : " found nothing"));
      }
      break;
    case EV_GET_SINK:
      ++sink_lookups;
      if (!e.b || !e.c)
      {
        return violation("sink_lookup_not_idempotent", "looking up sink " + std::to_string(e.a) + " by name " +
                                                         (e.b ? "returned a different object than the one in use" : "found nothing although it is in use"));
      }
      break;
    case EV_CSV:
      ++csv_scopes;
      if (e.s != e.s2)
      {
        return violation("csv_file_differs_after_the_writer_was_destroyed",
                         "CsvWriter scope " + std::to_string(e.a) + " with " + std::to_string(e.b) + " rows: file holds " +
                           std::to_string(e.s2.size()) + " bytes, expected " + std::to_string(e.s.size()) + " (header + every row)");
      }
      break;
    case EV_NOTE:
      if (e.s == "drop_sink_ref" && e.b >= 0 && e.b < nsinks)
      {
        user_ref[static_cast<size_t>(e.b)] = false;
      }
      break;
    case EV_SINK_DTOR:
      if (e.a >= 0 && e.a < nsinks)
      {
        dtor_seq[static_cast<size_t>(e.a)] = e.seq;
      }
      break;
    default:
      break;
    }
  }
  // after the backend stopped: a sink is destroyed iff no logger and no user reference remains
  for (int s = 0; s < nsinks; ++s)
  {
    bool referenced = user_ref[static_cast<size_t>(s)];
    for (auto const& kv : cur_mask)
    {
      if ((kv.second >> s) & 1)
      {
        referenced = true;
      }
    }
    bool destroyed = dtor_seq[static_cast<size_t>(s)] != 0;
    if (referenced && destroyed)
    {
      return violation("sink_destroyed_while_referenced", "sink " + std::to_string(s) + " was destroyed although a logger or the user still holds it");
    }
    if (!referenced && !destroyed)
    {
      return violation("unreferenced_sink_not_destroyed", "sink " + std::to_string(s) +
                                                            " is referenced by no logger and no user but was not destroyed when the backend stopped");
    }
    if (sink_type[static_cast<size_t>(s)] == 1)
    {
      // a real FileSink: the file as it was when after_close ran (else as it is at the end of the run, after the final flush)
      // holds every statement routed to the sink, once, in each thread's order, and nothing else
      Ev const* snap = nullptr;
      uint64_t closes = 0, before_closes = 0;
      for (auto const& e : h.ev)
      {
        if (e.type == EV_FILE_SNAP && e.a == s && (e.c == 1 || !snap || snap->c != 1))
        {
          snap = &e;
        }
        closes += e.type == EV_FILE_SNAP && e.a == s && e.c == 1;
        before_closes += e.type == EV_NOTE && e.s == "before_close" && e.b == s;
      }
      if (destroyed && (closes != 1 || before_closes != 1))
      {
        return violation("file_close_callbacks_not_called_once", "sink " + std::to_string(s) + ": before_close " +
                                                                   std::to_string(before_closes) + "x, after_close " + std::to_string(closes) + "x");
      }
      if (snap)
      {
        ++file_sinks_checked;
        std::set<int64_t> seen;
        std::map<int, uint64_t> last_invoke;
        size_t pos = 0;
        while (pos < snap->s.size())
        {
          size_t nl = snap->s.find('\n', pos);
          if (nl == std::string::npos)
          {
            nl = snap->s.size();
          }
          std::string line = snap->s.substr(pos, nl - pos);
          pos = nl + 1;
          if (line.empty())
          {
            continue;
          }
          int64_t id = line[0] == '#' ? std::atoll(line.c_str() + 1) : -1;
          auto it = m.issued.find(id);
          if (it == m.issued.end() || line != it->second.expected)
          {
            return violation("garbled_line_in_file", "file of sink " + std::to_string(s) + ": '" + line.substr(0, 100) + "'");
          }
          if (!seen.insert(id).second)
          {
            return violation("duplicate_line_in_file", "id " + std::to_string(id) + " in the file of sink " + std::to_string(s));
          }
          if (!((m.mask_of_logger_at(it->second.logger, it->second.invoke_seq) >> s) & 1))
          {
            return violation("unexpected_delivery", "id " + std::to_string(id) + " in the file of sink " + std::to_string(s) +
                                                      " which its logger does not use");
          }
          if (last_invoke.count(it->second.thread) && it->second.invoke_seq < last_invoke[it->second.thread])
          {
            return violation("statements_out_of_thread_order_in_file", "sink " + std::to_string(s) + " thread " + std::to_string(it->second.thread));
          }
          last_invoke[it->second.thread] = it->second.invoke_seq;
        }
        // Completeness is demanded of a file that was closed because its sink was destroyed ("they are all written before the
        // logger, and any sink no longer referenced ..., is destroyed and its file closed"). Whether a sink that lives on has
        // been *flushed* when the backend stops is C07's clause (and judged there, with removed loggers in its plans), not C17's.
        for (int64_t id : m.issue_order)
        {
          Issued const& is = m.issued.at(id);
          if (snap->c != 1 || is.result != 1 || is.kind == 1 || !((m.mask_of_logger_at(is.logger, is.invoke_seq) >> s) & 1))
          {
            continue;
          }
          if (!seen.count(id))
          {
            return violation("statement_missing_from_the_file_when_it_was_closed",
                             "id " + std::to_string(id) + " of thread " + std::to_string(is.thread) + " (logger slot " +
                               std::to_string(is.logger) + ") is not in the file of sink " + std::to_string(s) +
                               " as it was when the sink closed it");
          }
          ++file_statements_checked;
        }
      }
    }
    if (destroyed)
    {
      ++sinks_destroyed;
      // every statement routed to this sink was written before it was destroyed
      for (auto const& w : m.by_sink[static_cast<size_t>(s)])
      {
        if (w.seq > dtor_seq[static_cast<size_t>(s)])
        {
          return violation("write_after_sink_destruction", "sink " + std::to_string(s));
        }
      }
    }
    else
    {
      ++sinks_kept;
    }
  }
  v.nontrivial = removals >= 1 && ri.preemptions >= 1;
  v.probes["logger_removals"] = removals;
  v.probes["blocking_removals"] = blocking;
  v.probes["recreations_after_removal"] = recreated;
  v.probes["lookups_and_idempotent_creates"] = lookups;
  v.probes["sink_lookups_by_name"] = sink_lookups;
  v.probes["csv_writer_scopes"] = csv_scopes;
  v.probes["sinks_destroyed"] = sinks_destroyed;
  v.probes["sinks_kept"] = sinks_kept;
  v.probes["file_sinks_judged_by_their_file"] = file_sinks_checked;
  v.probes["statement_file_pairs_checked"] = file_statements_checked;
  return v;
}

void register_c17(std::vector<Profile>& v)
{
  Profile p;
  p.id = "C17";
  p.title = "Removing/re-creating loggers never loses statements nor frees state in use";
  p.gen = gen_c17;
  p.judge = judge_c17;
  p.rule =
    "one case = one seeded plan: 1-3 threads, 2-3 logger names, 2-3 recording sinks shared in random patterns, 2-6 phases of "
    "logging separated by barriers, after each of which one thread removes loggers (asynchronously or blocking) while their "
    "statements are still queued and re-creates them (same name after a blocking removal with different sinks, new name "
    "after an asynchronous one), drops user sink references, with other threads logging through untouched loggers and "
    "backend stalls around the removal; several threads creating the same new logger at once; scoped CsvWriters (file based, and on a "
    "user-supplied sink the user keeps referencing, re-created at once under the same name); real FileSinks whose callbacks report the closing of "
    "the file; a sink-name history through the registry "
    "(reference kept past a blocking removal, dropped, name created again and looked up); distinct = distinct event hash; non-trivial = "
    ">=1 removal and >=1 preemption";
  p.real_components = {"LoggerManager / SinkManager (registries, spinlocks)", "FrontendImpl::remove_logger / remove_logger_blocking / "
                       "create_or_get_logger / get_logger", "BackendWorker::_cleanup_invalidated_loggers", "FileSink open / close path", "queues, backend"};
  p.stub_components = {"recording sinks (record their own destruction)", "clock (virtual)", "scheduling (simulator)"};
  p.assumptions = {"API contract respected by construction: a logger is removed only after every thread that used it passed a barrier; no "
                   "same-name re-creation after an asynchronous removal",
                   "premature frees are visible only in the ASan flavour (thorough tier) or as crashes"};
  p.quick_runs = 28000;
  p.thorough_runs = 400000;
  v.push_back(p);
}
} // namespace vs
