// p_c18.cpp — C18: backtrace statements are held back, then replayed: most recent N, in order, once.
#include "gen_common.h"
#include "oracle_common.h"
#include "profiles.h"

#include <deque>

namespace vs
{
// multi-writer variant: several threads store into one logger's backtrace concurrently; the flush is issued when they are
// joined (quiet), so what must come out is exact in number and, per thread, the most recent ones in order
static Plan gen_c18_multi(uint64_t seed, int tier)
{
  Rng r(seed);
  Plan p;
  p.profile = "C18";
  p.seed = seed;
  p.cfg["multi_writer"] = 1;
  p.cfg["fo"] = r.pick<int>({0, 1, 1, 5});
  gen_sched(p, r);
  gen_backend(p, r);
  p.cfg["grace_us"] = r.pick<int64_t>({1, 1, 20});
  p.cfg["nloggers"] = 1;
  p.cfg["nsinks"] = r.range(1, 2);
  p.cfg["logger0_sinks"] = r.range(1, (1 << p.cfg["nsinks"]) - 1);
  p.cfg["logger0_clock"] = 0;
  fix_timescale(p);
  int cycles = static_cast<int>(r.range(1, tier ? 5 : 3));
  int64_t cap = r.range(1, 8);
  p.cfg["bt_capacity"] = cap;
  p.threads.resize(1);
  p.threads[0].push_back(Op{OP_BT_INIT, 0, cap, 10});
  for (int c = 0; c < cycles; ++c)
  {
    int writers = static_cast<int>(r.range(2, 3));
    std::vector<int> tids;
    for (int w = 0; w < writers; ++w)
    {
      int t = static_cast<int>(p.threads.size());
      p.threads.emplace_back();
      int n = static_cast<int>(r.pick<int64_t>({0, 1, cap / 2 + 1, cap, cap + 1, 2 * cap}));
      for (int i = 0; i < n; ++i)
      {
        p.threads[static_cast<size_t>(t)].push_back(Op{OP_BT_LOG, 0, 0, 0, static_cast<int64_t>(r.next() >> 8), static_cast<int64_t>(r.below(20)), 0});
        if (r.chance(1, 5))
        {
          p.threads[static_cast<size_t>(t)].push_back(Op{OP_SLEEP, r.pick<int64_t>({100, 1000})});
        }
      }
      tids.push_back(t);
    }
    for (int t : tids)
    {
      p.threads[0].push_back(Op{OP_SPAWN, t});
    }
    for (int t : tids)
    {
      p.threads[0].push_back(Op{OP_JOIN, t});
    }
    p.threads[0].push_back(Op{OP_BT_FLUSH, 0});
    p.threads[0].push_back(Op{OP_FLUSH, 0, 100});
    if (c + 1 < cycles && r.chance(1, 3))
    {
      // re-initialise (ring empty, nothing in flight) with another capacity
      cap = r.range(1, 8);
      p.threads[0].push_back(Op{OP_BT_INIT, 0, cap, 10});
    }
  }
  return p;
}

static Verdict judge_c18_multi(Plan const& p, History const& h, RunInfoLite const& ri)
{
  Verdict v;
  if (ri.stuck || !ri.completed)
  {
    v.kind = Verdict::INCONCLUSIVE;
    v.tag = "did_not_finish:" + ri.stuck_reason;
    v.detail = ri.where;
    return v;
  }
  Model m = Model::build(p, h);
  if (p.threads.empty() || p.threads[0].empty() || p.threads[0][0].k != OP_BT_INIT)
  {
    return v; // (a minimisation candidate without the initialisation: nothing is demanded)
  }
  size_t const cap = static_cast<size_t>(p.threads[0][0].v[1]);
  // cycles: the writer threads spawned between two BT_FLUSH ops of main
  // The demands below are exact only for the shape the generator produces (every writer joined before the flush, the flush
  // completed by flush_log before the next writers start, re-initialisation only in between): a minimisation candidate that
  // lost one of those ops is not judged.
  std::vector<std::vector<int>> cycle_threads;
  std::vector<size_t> cycle_cap;
  {
    auto const& ops = p.threads[0];
    size_t i = 1;
    size_t cur_cap = cap;
    while (i < ops.size())
    {
      if (ops[i].k == OP_BT_INIT)
      {
        cur_cap = static_cast<size_t>(ops[i].v[1]);
        ++i;
        continue;
      }
      std::vector<int> sp, jn;
      while (i < ops.size() && ops[i].k == OP_SPAWN)
      {
        sp.push_back(static_cast<int>(ops[i++].v[0]));
      }
      while (i < ops.size() && ops[i].k == OP_JOIN)
      {
        jn.push_back(static_cast<int>(ops[i++].v[0]));
      }
      bool closed = i + 1 < ops.size() && ops[i].k == OP_BT_FLUSH && ops[i + 1].k == OP_FLUSH;
      if (sp.empty() || sp != jn || !closed)
      {
        return v;
      }
      i += 2;
      cycle_threads.push_back(sp);
      cycle_cap.push_back(cur_cap);
    }
  }
  uint64_t cycles_checked = 0, replayed = 0;
  int64_t mask = m.mask_of_logger_at(0, 0);
  for (size_t s = 0; s < m.by_sink.size(); ++s)
  {
    if (!((mask >> s) & 1))
    {
      continue;
    }
    std::set<int64_t> seen;
    for (auto const& w : m.by_sink[s])
    {
      auto it = m.issued.find(w.id);
      if (w.id < 0 || it == m.issued.end())
      {
        return violation("garbled_statement", "sink " + std::to_string(s) + ": '" + w.msg->substr(0, 80) + "'");
      }
      if (!seen.insert(w.id).second)
      {
        return violation("backtrace_statement_replayed_twice", "id " + std::to_string(w.id) + " on sink " + std::to_string(s),
                         {{"multi_writer", "1"}});
      }
      if (*w.msg != it->second.expected)
      {
        return violation("text_mismatch", "id " + std::to_string(w.id));
      }
      std::string why = attribution_error(m, it->second, static_cast<int>(s), w);
      if (!why.empty())
      {
        return violation("wrong_attribution", "replayed id " + std::to_string(w.id) + " on sink " + std::to_string(s) + ": " + why,
                         {{"multi_writer", "1"}});
      }
    }
    for (size_t ci = 0; ci < cycle_threads.size(); ++ci)
    {
      auto const& threads = cycle_threads[ci];
      size_t const cap = cycle_cap[ci];
      if (threads.empty())
      {
        continue;
      }
      std::set<int> ts(threads.begin(), threads.end());
      size_t stored = 0;
      std::map<int, std::vector<int64_t>> stored_by_thread;
      for (int64_t id : m.issue_order)
      {
        Issued const& is = m.issued.at(id);
        if (ts.count(is.thread) && is.kind == 1 && is.result == 1)
        {
          ++stored;
          stored_by_thread[is.thread].push_back(id);
        }
      }
      std::vector<Write const*> got;
      for (auto const& w : m.by_sink[s])
      {
        if (ts.count(m.issued.at(w.id).thread))
        {
          got.push_back(&w);
        }
      }
      size_t want_n = std::min(cap, stored);
      if (got.size() != want_n)
      {
        return violation("backtrace_flush_replayed_wrong_number_of_statements",
                         "sink " + std::to_string(s) + ": " + std::to_string(stored) + " statements stored by " + std::to_string(threads.size()) +
                           " threads with capacity " + std::to_string(cap) + ", " + std::to_string(got.size()) + " replayed",
                         {{"multi_writer", "1"}});
      }
      // per thread: a suffix of what it stored, in its order.  (Nothing is demanded about the order ACROSS threads: the ring
      // holds statements in the order the backend processed them, which is timestamp order only under the conditions of the
      // backend's grace period — a first version of this oracle demanded non-decreasing timestamps and was wrong.)
      std::map<int, std::vector<int64_t>> got_by_thread;
      for (size_t i = 0; i < got.size(); ++i)
      {
        got_by_thread[m.issued.at(got[i]->id).thread].push_back(got[i]->id);
      }
      for (auto const& kv : got_by_thread)
      {
        auto const& all = stored_by_thread[kv.first];
        if (kv.second.size() > all.size() || !std::equal(kv.second.begin(), kv.second.end(), all.end() - static_cast<long>(kv.second.size())))
        {
          return violation("backtrace_replay_is_not_the_most_recent_of_a_thread",
                           "sink " + std::to_string(s) + " thread " + std::to_string(kv.first) + ": replayed " + ids_to_string(kv.second) +
                             " of stored " + ids_to_string(all),
                           {{"multi_writer", "1"}});
        }
      }
      ++cycles_checked;
      replayed += got.size();
    }
  }
  v.nontrivial = cycles_checked >= 1 && replayed >= 1;
  v.probes["multi_writer_cycles_checked"] = cycles_checked;
  v.probes["statements_replayed"] = replayed;
  return v;
}

Plan gen_c18(uint64_t seed, int tier)
{
  if ((seed >> 3) % 4 == 0)
  {
    return gen_c18_multi(seed, tier);
  }
  Rng r(seed);
  Plan p;
  p.profile = "C18";
  p.seed = seed;
  int fo = r.pick<int>({0, 1, 1, 5});
  p.cfg["fo"] = fo;
  gen_sched(p, r);
  gen_backend(p, r);
  gen_backend_mode(p, r);
  // one writer thread per backtrace logger (exact model): thread t uses logger t
  int nthreads = static_cast<int>(r.range(1, 3));
  p.cfg["nloggers"] = nthreads;
  p.cfg["nsinks"] = r.range(1, 2);
  for (int i = 0; i < nthreads; ++i)
  {
    p.cfg["logger" + std::to_string(i) + "_sinks"] = r.range(1, (1 << p.cfg["nsinks"]) - 1);
    p.cfg["logger" + std::to_string(i) + "_clock"] = 0;
  }
  fix_timescale(p);
  p.threads.resize(static_cast<size_t>(nthreads));
  // fault variant (C10 x C18): a sink throws while a stored statement is replayed
  bool sink_faults = r.chance(1, 3);
  int64_t const nsinks_cfg = p.cfg["nsinks"];
  for (int t = 0; t < nthreads; ++t)
  {
    auto& ops = p.threads[static_cast<size_t>(t)];
    int lg = t;
    int cycles = static_cast<int>(r.range(1, tier ? 8 : 5));
    int64_t cap = r.range(1, 8);
    int64_t flush_level = r.pick<int64_t>({10, 10, 7, 8, 6}); // 10 = None: explicit flush only
    ops.push_back(Op{OP_BT_INIT, lg, cap, flush_level});
    for (int c = 0; c < cycles; ++c)
    {
      // fill: sometimes fewer than the capacity, sometimes wrapping the ring once or several times
      int64_t nstore = r.pick<int64_t>({0, 1, cap - 1, cap, cap + 1, cap + 2, 2 * cap, 2 * cap + 1, 3 * cap + r.range(0, 3)});
      if (nstore < 0)
      {
        nstore = 0;
      }
      for (int64_t i = 0; i < nstore; ++i)
      {
        int64_t fb = (sink_faults && r.chance(1, 6)) ? (int64_t{1} << r.below(static_cast<uint32_t>(nsinks_cfg))) : 0;
        ops.push_back(Op{OP_BT_LOG, lg, 0, 0, static_cast<int64_t>(r.next() >> 8), static_cast<int64_t>(r.below(30)), fb});
        if (r.chance(1, 14))
        {
          // re-initialise with the SAME capacity while the ring holds statements (the way to change only the flush level):
          // nothing stored may be forgotten. flush_log first, so that no ordinary statement is in flight when the level,
          // which the frontend publishes immediately, changes.
          ops.push_back(Op{OP_FLUSH, lg, 100});
          flush_level = r.pick<int64_t>({10, 7, 8, 6});
          ops.push_back(Op{OP_BT_INIT, lg, cap, flush_level});
        }
        if (r.chance(1, 4))
        {
          // ordinary statements below the flush level in between (with flush level None every level is below it: a
          // WARNING / ERROR / CRITICAL statement must then not flush, also not after a re-initialisation from another level)
          int64_t lvl = flush_level == 10 ? r.range(2, 8) : r.range(2, std::min<int64_t>(5, flush_level - 1));
          // (site 4 = a dynamic-level statement: its effective level, not the call site's placeholder, decides)
          ops.push_back(Op{OP_LOG, lg, static_cast<int64_t>(r.below(5)), lvl, static_cast<int64_t>(r.next() >> 8),
                           static_cast<int64_t>(r.below(30)), 0});
        }
      }
      // flush: explicit, or by a statement at or above the flush level
      if (flush_level != 10 && r.chance(1, 2))
      {
        ops.push_back(Op{OP_LOG, lg, r.pick<int64_t>({0, 1, 4}), r.range(flush_level, 8), static_cast<int64_t>(r.next() >> 8), 8, 0});
      }
      else
      {
        ops.push_back(Op{OP_BT_FLUSH, lg});
      }
      if (r.chance(1, 4))
      {
        // re-initialise with the ring empty and nothing in flight: flush_log first
        ops.push_back(Op{OP_BT_FLUSH, lg});
        ops.push_back(Op{OP_FLUSH, lg, 100});
        if (r.chance(1, 2))
        {
          cap = r.range(1, 8);
        }
        flush_level = r.pick<int64_t>({10, 7, 8, 6});
        ops.push_back(Op{OP_BT_INIT, lg, cap, flush_level});
      }
    }
    ops.push_back(Op{OP_FLUSH, lg, 100});
  }
  for (int t = 1; t < nthreads; ++t)
  {
    p.threads[0].insert(p.threads[0].begin(), Op{OP_SPAWN, t});
    p.threads[0].push_back(Op{OP_JOIN, t});
  }
  return p;
}

Verdict judge_c18(Plan const& p, History const& h, RunInfoLite const& ri)
{
  if (p.get("multi_writer", 0))
  {
    return judge_c18_multi(p, h, ri);
  }
  Verdict v;
  if (ri.stuck || !ri.completed)
  {
    v.kind = Verdict::INCONCLUSIVE;
    v.tag = "did_not_finish:" + ri.stuck_reason;
    v.detail = ri.where;
    return v;
  }
  Model m = Model::build(p, h);
  uint64_t faulty_replays = 0;
  uint64_t flushes = 0, wrapped_flushes = 0, second_cycle_after_wrap = 0, replayed = 0, reinit = 0;
  // per logger (= per writer thread): replay the thread's program on a reference ring and derive the exact
  // sequence of ids every sink of the logger must receive
  for (size_t t = 0; t < p.threads.size(); ++t)
  {
    int lg = static_cast<int>(t);
    std::deque<int64_t> ring;
    int64_t cap = 0, flush_level = 10;
    bool wrapped = false, had_wrapped_flush = false;
    std::vector<int64_t> want;
    auto flush_ring = [&]()
    {
      ++flushes;
      if (wrapped)
      {
        ++wrapped_flushes;
        had_wrapped_flush = true;
      }
      else if (had_wrapped_flush && !ring.empty())
      {
        ++second_cycle_after_wrap;
      }
      for (int64_t id : ring)
      {
        want.push_back(id);
        ++replayed;
      }
      ring.clear();
      wrapped = false;
    };
    auto const& ops = p.threads[t];
    for (size_t i = 0; i < ops.size(); ++i)
    {
      Op const& op = ops[i];
      int64_t id = static_cast<int64_t>(t) * 1000000 + static_cast<int64_t>(i);
      if (op.k == OP_BT_INIT && op.v[0] == lg)
      {
        if (cap != 0)
        {
          ++reinit;
        }
        if (op.v[1] != cap)
        {
          ring.clear();
          wrapped = false;
        }
        cap = op.v[1];
        flush_level = op.v[2];
      }
      else if (op.k == OP_BT_LOG && op.v[0] == lg)
      {
        auto it = m.issued.find(id);
        if (it == m.issued.end() || it->second.result != 1)
        {
          continue;
        }
        ring.push_back(id);
        if (static_cast<int64_t>(ring.size()) > cap)
        {
          ring.pop_front();
          wrapped = true;
        }
      }
      else if (op.k == OP_LOG && op.v[0] == lg)
      {
        auto it = m.issued.find(id);
        if (it == m.issued.end() || it->second.result != 1)
        {
          continue;
        }
        want.push_back(id);
        if (it->second.level >= flush_level)
        {
          flush_ring();
        }
      }
      else if (op.k == OP_BT_FLUSH && op.v[0] == lg)
      {
        flush_ring();
      }
    }
    int64_t mask = m.mask_of_logger_at(lg, 0);
    for (size_t s = 0; s < m.by_sink.size(); ++s)
    {
      if (!((mask >> s) & 1))
      {
        continue;
      }
      std::vector<int64_t> got;
      for (auto const& w : m.by_sink[s])
      {
        auto it = m.issued.find(w.id);
        if (w.id < 0 || it == m.issued.end())
        {
          return violation("garbled_statement", "sink " + std::to_string(s) + ": '" + w.msg->substr(0, 80) + "'");
        }
        if (it->second.logger != lg)
        {
          continue;
        }
        if (*w.msg != it->second.expected)
        {
          return violation("text_mismatch", "id " + std::to_string(w.id));
        }
        got.push_back(w.id);
      }
      // a statement whose replay made sink f throw may be missing from sink f and the sinks after it — nothing else
      std::set<int64_t> optional;
      for (int64_t id : want)
      {
        Issued const& wi = m.issued.at(id);
        int64_t throwers = wi.fault_bits & FB_SINK_THROW_MASK & mask;
        if (throwers)
        {
          int first = 0;
          while (!((throwers >> first) & 1))
          {
            ++first;
          }
          if (static_cast<int>(s) >= first)
          {
            optional.insert(id);
          }
        }
      }
      std::vector<int64_t> got_f, want_f;
      for (int64_t id : got)
      {
        if (!optional.count(id))
        {
          got_f.push_back(id);
        }
      }
      for (int64_t id : want)
      {
        if (!optional.count(id))
        {
          want_f.push_back(id);
        }
      }
      bool optional_dup = false;
      {
        std::set<int64_t> seen_opt;
        for (int64_t id : got)
        {
          if (optional.count(id) && !seen_opt.insert(id).second)
          {
            optional_dup = true;
          }
        }
      }
      faulty_replays += optional.size();
      if (got_f != want_f || optional_dup)
      {
        // classify
        std::string tag = "backtrace_replay_differs_from_model";
        std::multiset<int64_t> gs(got.begin(), got.end()), ws(want.begin(), want.end());
        std::map<std::string, std::string> f;
        bool dup = false;
        for (int64_t id : got)
        {
          if (gs.count(id) > 1)
          {
            dup = true;
          }
        }
        f["duplicate"] = dup ? "1" : "0";
        f["after_wrapped_flush"] = had_wrapped_flush ? "1" : "0";
        f["sink_threw_during_a_replay"] = optional.empty() ? "0" : "1";
        return violation(tag, "logger " + std::to_string(lg) + " sink " + std::to_string(s) + ": got " + ids_to_string(got, 40) +
                                " want " + ids_to_string(want, 40),
                         f);
      }
    }
  }
  v.nontrivial = flushes >= 1 && replayed >= 1;
  v.probes["backtrace_flushes"] = flushes;
  v.probes["flushes_with_wrapped_ring"] = wrapped_flushes;
  v.probes["nonempty_flush_after_an_earlier_wrapped_flush"] = second_cycle_after_wrap;
  v.probes["statements_replayed"] = replayed;
  v.probes["reinitialisations"] = reinit;
  v.probes["multi_writer_cycles_checked"] = 0;
  v.probes["replayed_statements_with_a_throwing_sink"] = faulty_replays;
  return v;
}

void register_c18(std::vector<Profile>& v)
{
  Profile p;
  p.id = "C18";
  p.title = "Backtrace statements are held back, then replayed: most recent N, in order, once";
  p.gen = gen_c18;
  p.judge = judge_c18;
  p.rule =
    "one case = one seeded plan: 1-3 writer threads, each with its own backtrace logger (capacity 1-8, flush level None/"
    "Warning/Error/Critical), 1-8 store->flush cycles with 0..3*capacity+3 stores each (explicit flush or flush-level "
    "statement), ordinary statements in between, re-initialisation with the ring empty; the sink sequence of every logger "
    "must equal a reference ring model exactly; distinct = distinct event hash; non-trivial = >=1 flush that replayed >=1 statement";
  p.real_components = {"BacktraceStorage", "BackendWorker::_process_transit_event (Backtrace/InitBacktrace/FlushBacktrace)", "frontend, queues"};
  p.stub_components = {"recording sinks", "clock (virtual)", "scheduling (simulator)"};
  p.assumptions = {"exact model: one writer thread per backtrace logger; re-initialisation with another capacity only with the ring empty, with the same capacity (new flush level) also while it holds statements; nothing in flight in both cases",
                   "multi-writer variant (1 run in 4): 2-3 threads store concurrently, the flush is issued after they are joined; demanded: each id once, "
                   "min(capacity, stored) statements, per thread the most recent ones in that thread's order (no order demanded across threads)"};
  p.quick_runs = 20000;
  p.thorough_runs = 400000;
  v.push_back(p);
}
} // namespace vs
