// p_c20.cpp — C20: exited threads' queues are drained, then reclaimed; shrinking loses nothing.
#include "gen_common.h"
#include "oracle_common.h"
#include "profiles.h"

namespace vs
{
Plan gen_c20(uint64_t seed, int tier)
{
  Rng r(seed);
  Plan p;
  p.profile = "C20";
  p.seed = seed;
  int fo = r.pick<int>({0, 1, 1, 5});
  if (Rng(seed ^ 0xd20).chance(1, 6))
  {
    fo = 3; // UnboundedDropping: growth, shrink requests and reclamation work the same way there
  }
  p.cfg["fo"] = fo;
  FOInfo fi = fo_info(fo);
  gen_sched(p, r);
  p.cfg["policy"] = 0;
  p.cfg["den"] = r.pick<int64_t>({8, 16, 64, 64});
  gen_backend(p, r);
  gen_backend_mode(p, r);
  p.cfg["grace_us"] = r.pick<int64_t>({0, 1});
  p.cfg["nsinks"] = 1;
  p.cfg["nloggers"] = 1;
  p.cfg["logger0_sinks"] = 1;
  p.cfg["logger0_clock"] = 0;
  p.cfg["delta_ns"] = r.pick<int64_t>({1, 3, 7});
  p.cfg["budget_random"] = 1500000;
  p.cfg["budget_fair"] = 6000000;
  fix_timescale(p);

  // waves of short-lived threads between two backend idle periods
  int waves = static_cast<int>(r.range(1, 2));
  std::vector<int> wave_sizes;
  int total_threads = 1;
  for (int w = 0; w < waves; ++w)
  {
    int n;
    uint32_t c = r.below(100);
    if (c < 45)
    {
      n = static_cast<int>(r.range(1, 12));
    }
    else if (c < 65)
    {
      n = static_cast<int>(r.range(13, tier ? 300 : 120));
    }
    else
    {
      // the reclamation is driven by a counter: sizes around multiples of 256
      n = static_cast<int>(r.pick<int64_t>({255, 256, 256, 256, 257, 512}));
    }
    wave_sizes.push_back(n);
    total_threads += n;
  }
  bool long_lived = r.chance(1, 2);
  int long_tid = long_lived ? total_threads : -1;
  p.threads.resize(static_cast<size_t>(total_threads + (long_lived ? 1 : 0)));
  auto& main_ops = p.threads[0];
  if (long_lived)
  {
    main_ops.push_back(Op{OP_SPAWN, long_tid});
    auto& lops = p.threads[static_cast<size_t>(long_tid)];
    int n = static_cast<int>(r.range(3, 30));
    for (int i = 0; i < n; ++i)
    {
      lops.push_back(Op{OP_LOG, 0, static_cast<int64_t>(r.below(4)), 4, static_cast<int64_t>(r.next() >> 8),
                        static_cast<int64_t>(r.below(40)), 0});
      if (r.chance(1, 3))
      {
        lops.push_back(Op{OP_SLEEP, r.pick<int64_t>({2000, 20000})});
      }
    }
    lops.push_back(Op{OP_BARRIER, 1, 2}); // stays alive until main has counted the contexts
  }
  main_ops.push_back(Op{OP_LOG, 0, 0, 4, static_cast<int64_t>(r.next() >> 8), 8, 0});
  int next_tid = 1;
  for (int w = 0; w < waves; ++w)
  {
    int n = wave_sizes[static_cast<size_t>(w)];
    // keep the backend from going idle while the wave starts, logs and exits
    if (r.chance(3, 4))
    {
      main_ops.push_back(Op{OP_STALL, -1, 0, r.range(1, 5), static_cast<int64_t>(n) * p.cfg["delta_ns"] * r.pick<int64_t>({300, 600, 1500})});
    }
    int first = next_tid;
    bool join_each = r.chance(1, 3);
    for (int i = 0; i < n; ++i)
    {
      int t = next_tid++;
      auto& ops = p.threads[static_cast<size_t>(t)];
      int k = static_cast<int>(r.range(1, 2));
      for (int j = 0; j < k; ++j)
      {
        ops.push_back(Op{OP_LOG, 0, static_cast<int64_t>(r.below(4)), 4, static_cast<int64_t>(r.next() >> 8),
                         static_cast<int64_t>(r.below(24)), 0});
      }
      if (fi.unbounded && r.chance(1, 6))
      {
        // grow, shrink, log again, exit: the tail sits in a fresh node when the thread ends
        ops.push_back(Op{OP_LOG, 0, 0, 4, static_cast<int64_t>(r.next() >> 8), static_cast<int64_t>(fi.init_cap), 0});
        if (r.chance(1, 2))
        {
          ops.push_back(Op{OP_FLUSH, 0, 100});
        }
        ops.push_back(Op{OP_SHRINK, static_cast<int64_t>(fi.init_cap)});
        int k2 = static_cast<int>(r.range(1, 4));
        for (int j = 0; j < k2; ++j)
        {
          ops.push_back(Op{OP_LOG, 0, 0, 4, static_cast<int64_t>(r.next() >> 8), static_cast<int64_t>(r.below(24)), 0});
        }
      }
      main_ops.push_back(Op{OP_SPAWN, t});
      if (join_each)
      {
        main_ops.push_back(Op{OP_JOIN, t});
      }
    }
    if (!join_each)
    {
      for (int t = first; t < next_tid; ++t)
      {
        main_ops.push_back(Op{OP_JOIN, t});
      }
    }
    // queue growth then shrink on the main thread's unbounded queue
    if (fi.unbounded && r.chance(1, 2))
    {
      main_ops.push_back(Op{OP_LOG, 0, 0, 4, static_cast<int64_t>(r.next() >> 8), static_cast<int64_t>(fi.init_cap), 0});
      main_ops.push_back(Op{OP_LOG, 0, 0, 4, static_cast<int64_t>(r.next() >> 8), static_cast<int64_t>(fi.init_cap / 2), 0});
      main_ops.push_back(Op{OP_SHRINK, static_cast<int64_t>(r.pick<size_t>({fi.init_cap, fi.init_cap / 2, fi.init_cap * 2, 100}))});
      int k = static_cast<int>(r.range(1, 6));
      for (int j = 0; j < k; ++j)
      {
        main_ops.push_back(Op{OP_LOG, 0, static_cast<int64_t>(r.below(4)), 4, static_cast<int64_t>(r.next() >> 8),
                              static_cast<int64_t>(r.below(50)), 0});
      }
    }
    if (r.chance(1, 2) || w == waves - 1)
    {
      main_ops.push_back(Op{OP_FLUSH, 0, 100});
      main_ops.push_back(Op{OP_FAIR});
      main_ops.push_back(Op{OP_CHECK_CTX});
    }
  }
  if (long_lived)
  {
    main_ops.push_back(Op{OP_BARRIER, 1, 2});
    main_ops.push_back(Op{OP_JOIN, long_tid});
  }
  // a tail after the last quiescent point: delivered by the final flush or only by the stop drain
  if (r.chance(1, 2))
  {
    int t = static_cast<int>(p.threads.size());
    p.threads.emplace_back(); // invalidates references into p.threads
    auto& ops = p.threads.back();
    auto& main_ops2 = p.threads[0];
    if (fi.unbounded)
    {
      ops.push_back(Op{OP_LOG, 0, 0, 4, static_cast<int64_t>(r.next() >> 8), static_cast<int64_t>(fi.init_cap), 0});
      ops.push_back(Op{OP_FLUSH, 0, 100});
      ops.push_back(Op{OP_SLEEP, p.cfg["sleep_ns"] * 2 + 5000});
      ops.push_back(Op{OP_SHRINK, static_cast<int64_t>(fi.init_cap)});
    }
    int k = static_cast<int>(r.range(1, 5));
    for (int j = 0; j < k; ++j)
    {
      ops.push_back(Op{OP_LOG, 0, 0, 4, static_cast<int64_t>(r.next() >> 8), static_cast<int64_t>(r.below(24)), 0});
    }
    main_ops2.push_back(Op{OP_SPAWN, t});
    main_ops2.push_back(Op{OP_JOIN, t});
    if (r.chance(1, 2))
    {
      main_ops2.push_back(Op{OP_SLEEP, p.cfg["sleep_ns"] * 2 + 5000});
    }
    p.cfg["final_flush"] = r.chance(1, 2) ? 1 : 0;
  }
  return p;
}

Verdict judge_c20(Plan const& p, History const& h, RunInfoLite const& ri)
{
  Verdict v;
  if (ri.stuck || !ri.completed)
  {
    v.kind = Verdict::INCONCLUSIVE;
    v.tag = "did_not_finish:" + ri.stuck_reason;
    v.detail = ri.where;
    return v;
  }
  Model m = Model::build(p, h);
  DeliveryRules rules;
  rules.expect = [](Issued const& is, int sink) -> int { return (is.result == 1 && sink == 0) ? 1 : 0; };
  Verdict d = check_delivery(m, rules);
  if (d.kind != Verdict::OK)
  {
    d.tag = "delivery:" + d.tag;
    return d;
  }
  uint64_t checks = 0, threads_exited = 0, shrinks = 0, max_wave = 0;
  for (auto const& e : h.ev)
  {
    if (e.type == EV_THREAD_END)
    {
      ++threads_exited;
    }
  }
  for (auto const& e : h.ev)
  {
    if (e.type == EV_CTX_COUNT)
    {
      ++checks;
      if (e.a != e.b)
      {
        int64_t extra = e.a - e.b;
        return violation("thread_contexts_not_reclaimed",
                         "after flush + backend idle polls the backend retains " + std::to_string(e.a) +
                           " thread contexts but only " + std::to_string(e.b) + " live threads have logged (" +
                           std::to_string(threads_exited) + " threads exited in this run)",
                         {{"retained_extra_is_multiple_of_256", (extra > 0 && extra % 256 == 0) ? "1" : "0"}});
      }
    }
    if (e.type == EV_SHRINK)
    {
      ++shrinks;
      // a valid request (power of two... any value <= half the current capacity) must take effect
      uint64_t req = static_cast<uint64_t>(e.a), before = static_cast<uint64_t>(e.b), after = static_cast<uint64_t>(e.c);
      uint64_t pow2 = 1;
      while (pow2 < req)
      {
        pow2 <<= 1;
      }
      if (req <= before / 2)
      {
        if (after != pow2)
        {
          return violation("shrink_did_not_take_effect", "shrink(" + std::to_string(req) + ") with capacity " +
                                                            std::to_string(before) + " left capacity " + std::to_string(after));
        }
      }
      else if (after != before)
      {
        return violation("invalid_shrink_changed_capacity", "shrink(" + std::to_string(req) + ") with capacity " +
                                                               std::to_string(before) + " -> " + std::to_string(after));
      }
    }
  }
  for (auto const& t : p.threads)
  {
    (void)t;
  }
  max_wave = threads_exited;
  v.nontrivial = checks >= 1 && threads_exited >= 1;
  v.probes["context_count_checks"] = checks;
  v.probes["threads_exited"] = threads_exited;
  v.probes["runs_with_256_or_more_exits"] = max_wave >= 256 ? 1 : 0;
  v.probes["shrink_requests"] = shrinks;
  return v;
}

void register_c20(std::vector<Profile>& v)
{
  Profile p;
  p.id = "C20";
  p.title = "Exited threads' queues are drained, then reclaimed; shrinking loses nothing";
  p.gen = gen_c20;
  p.judge = judge_c20;
  p.rule =
    "one case = one seeded plan: 1-2 waves of 1-512 short-lived threads (sizes biased to 255/256/257/512) that log 1-2 "
    "statements and exit while the backend is stalled or busy, an optional long-lived thread, queue growth + "
    "shrink_thread_local_queue requests, then flush + fair phase + context count through the public "
    "ThreadContextManager::for_each_thread_context; distinct = distinct event hash; non-trivial = >=1 context count check "
    "after >=1 thread exit";
  p.real_components = {"ScopedThreadContext (thread_local destructor at real thread exit)", "ThreadContextManager", "BackendWorker cleanup",
                       "UnboundedSPSCQueue::shrink", "TransitEventBuffer"};
  p.stub_components = {"recording sink", "clock (virtual)", "scheduling (simulator)"};
  p.assumptions = {"a context is counted as reclaimed if the count matches within 60 idle backend polls after flush_log() in the fair phase"};
  p.quick_runs = 1000;
  p.thorough_runs = 40000;
  v.push_back(p);
}
} // namespace vs
