// profiles.cpp — shared model construction, generator helpers, profile registry.
#include "profiles.h"
#include "gen_common.h"

#include <algorithm>
#include <sstream>

namespace vs
{
std::string ids_to_string(std::vector<int64_t> const& v, size_t max)
{
  std::ostringstream o;
  o << "[";
  for (size_t i = 0; i < v.size() && i < max; ++i)
  {
    o << (i ? " " : "") << v[i];
  }
  if (v.size() > max)
  {
    o << " ...(" << v.size() << ")";
  }
  o << "]";
  return o.str();
}

Model Model::build(Plan const& p, History const& h)
{
  Model m;
  m.nsinks = static_cast<int>(p.get("nsinks", 1));
  m.by_sink.resize(static_cast<size_t>(m.nsinks < 8 ? 8 : m.nsinks));
  int nloggers = static_cast<int>(p.get("nloggers", 1));
  for (int i = 0; i < nloggers; ++i)
  {
    int64_t mask = p.get("logger" + std::to_string(i) + "_sinks", 1);
    int64_t eff = 0;
    for (int s = 0; s < m.nsinks; ++s)
    {
      if ((mask >> s) & 1)
      {
        eff |= int64_t{1} << s;
      }
    }
    if (eff == 0)
    {
      eff = 1;
    }
    m.logger_masks[i].push_back({0, eff});
  }
  m.sink_override.assign(m.by_sink.size(), false);
  for (size_t i = 0; i < m.by_sink.size(); ++i)
  {
    m.sink_override[i] = p.get("sink" + std::to_string(i) + "_override", 0) != 0;
  }
  for (int i = 0; i < nloggers; ++i)
  {
    m.logger_names[i].push_back({0, "lg" + std::to_string(i)});
  }
  for (size_t t = 0; t < h.status.size(); ++t)
  {
    m.thread_sim_id[static_cast<int>(t)] = h.status[t].sim_id;
  }
  m.thread_sim_id[0] = 0;
  for (auto const& e : h.ev)
  {
    switch (e.type)
    {
    case EV_LOG_INVOKE:
    {
      Issued& is = m.issued[e.a];
      is.id = e.a;
      is.thread = e.thread;
      is.logger = static_cast<int>(e.b);
      is.level = static_cast<int>(e.c);
      is.kind = static_cast<int>(e.d);
      is.invoke_seq = e.seq;
      is.invoke_vt = e.vt;
      is.expected = e.s;
      if (!e.s2.empty())
      {
        size_t comma = e.s2.find(',');
        is.site = std::atoi(e.s2.c_str());
        if (comma != std::string::npos)
        {
          is.fault_bits = std::atoll(e.s2.c_str() + comma + 1);
        }
      }
      m.issue_order.push_back(e.a);
      break;
    }
    case EV_LOG_RETURN:
    {
      auto it = m.issued.find(e.a);
      if (it != m.issued.end())
      {
        it->second.result = static_cast<int>(e.b);
        it->second.return_seq = e.seq;
        it->second.return_vt = e.vt;
        it->second.first_clock = e.d;
      }
      break;
    }
    case EV_SINK_WRITE:
    {
      Write w;
      w.sink = static_cast<int>(e.a);
      w.id = e.b;
      w.seq = e.seq;
      w.vt = e.vt;
      w.ts = e.c;
      w.level = static_cast<int>(e.d);
      w.msg = &e.s;
      w.stmt = &e.s2;
      if (w.sink >= 0 && static_cast<size_t>(w.sink) < m.by_sink.size())
      {
        m.by_sink[static_cast<size_t>(w.sink)].push_back(w);
      }
      m.all_writes.push_back(w);
      break;
    }
    case EV_CREATE_LOGGER:
      if (e.c == 1)
      {
        m.logger_masks[static_cast<int>(e.a)].push_back({e.seq, e.b});
        m.logger_names[static_cast<int>(e.a)].push_back({e.seq, e.s});
      }
      break;
    case EV_NOTIFIER:
      m.notifier.push_back(e.s);
      break;
    default:
      break;
    }
  }
  return m;
}

int64_t Model::mask_of_logger_at(int slot, uint64_t seq) const
{
  auto it = logger_masks.find(slot);
  if (it == logger_masks.end())
  {
    return 0;
  }
  int64_t mask = 0;
  for (auto const& pr : it->second)
  {
    if (pr.first <= seq)
    {
      mask = pr.second;
    }
  }
  return mask;
}

std::string Model::logger_name_at(int slot, uint64_t seq) const
{
  auto it = logger_names.find(slot);
  std::string name;
  if (it != logger_names.end())
  {
    for (auto const& pr : it->second)
    {
      if (pr.first <= seq)
      {
        name = pr.second;
      }
    }
  }
  return name;
}

// ---- registry ------------------------------------------------------------------------------------
void register_c03(std::vector<Profile>&);
void register_c04(std::vector<Profile>&);
void register_c11(std::vector<Profile>&);
void register_c05(std::vector<Profile>&);
void register_c06(std::vector<Profile>&);
void register_c07(std::vector<Profile>&);
void register_c08(std::vector<Profile>&);
void register_c09(std::vector<Profile>&);
void register_c10(std::vector<Profile>&);
void register_c16(std::vector<Profile>&);
void register_c17(std::vector<Profile>&);
void register_c18(std::vector<Profile>&);
void register_c20(std::vector<Profile>&);

static std::vector<Profile>& registry()
{
  static std::vector<Profile> r = []
  {
    std::vector<Profile> v;
    register_c03(v);
    register_c04(v);
    register_c05(v);
    register_c11(v);
    register_c06(v);
    register_c07(v);
    register_c08(v);
    register_c09(v);
    register_c10(v);
    register_c16(v);
    register_c17(v);
    register_c18(v);
    register_c20(v);
    return v;
  }();
  return r;
}

Profile const* find_profile(std::string const& id)
{
  for (auto const& p : registry())
  {
    if (p.id == id)
    {
      return &p;
    }
  }
  return nullptr;
}

std::vector<std::string> all_profile_ids()
{
  std::vector<std::string> v;
  for (auto const& p : registry())
  {
    v.push_back(p.id);
  }
  return v;
}
} // namespace vs
