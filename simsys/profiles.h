// profiles.h — a profile = op/fault mix (generator) + configuration menu + one oracle (judge) of
// the single SIM-SYS engine. A profile reports only its own property.
#pragma once
#include "fo_info.h"
#include "history.h"
#include "plan.h"

#include <functional>
#include <set>
#include <string>
#include <vector>

namespace vs
{
struct RunInfoLite
{
  bool stuck = false;
  std::string stuck_reason;
  std::string where; // which op each unfinished thread is in
  bool completed = false;
  uint64_t steps = 0, switches = 0, preemptions = 0, vns = 0, stalls_fired = 0, fair_steps = 0, time_jumps = 0,
           spurious_cv = 0, fwrite_faults = 0;
  uint64_t faults_fired[16] = {};
};

struct Profile
{
  std::string id;
  std::string title;
  std::function<Plan(uint64_t seed, int tier)> gen;
  std::function<Verdict(Plan const&, History const&, RunInfoLite const&)> judge;
  // for profiles whose child really exits / dies (C07): evaluated by the parent
  std::function<Verdict(Plan const&, std::string const& pre_record, int wait_status, std::string const& scratch)> judge_parent;
  std::string rule;
  std::vector<std::string> real_components, stub_components, assumptions;
  int quick_runs = 2000;
  int thorough_runs = 200000;
  std::string level = "exploration";
};

Profile const* find_profile(std::string const& id);
std::vector<std::string> all_profile_ids();

// ---- shared model of issued statements and sink deliveries -----------------------------------------
struct Issued
{
  int64_t id = 0;
  int thread = 0;
  int logger = 0;
  int level = 0;
  int kind = 0;
  int result = -3; // 1 enqueued, 0 dropped, -1 below level, -2 threw, -3 never returned
  uint64_t invoke_seq = 0, return_seq = 0, invoke_vt = 0, return_vt = 0;
  int64_t first_clock = 0; // first wall clock value the caller read inside the call (0: none recorded)
  std::string expected;
  int64_t fault_bits = 0;
  int site = 0;
};

struct Write
{
  int sink = 0;
  int64_t id = -1;
  uint64_t seq = 0;
  uint64_t vt = 0;
  int64_t ts = 0;
  int level = 0;
  std::string const* msg = nullptr;
  std::string const* stmt = nullptr;
};

struct Model
{
  std::map<int64_t, Issued> issued;
  std::vector<int64_t> issue_order;              // ids in global invoke order
  std::vector<std::vector<Write>> by_sink;       // per sink, in write order
  std::vector<Write> all_writes;                 // global order
  std::map<int, std::vector<std::pair<uint64_t, int64_t>>> logger_masks; // slot -> [(seq, mask)]
  std::vector<std::string> notifier;
  int nsinks = 0;
  std::map<int, int> thread_sim_id;        // plan thread -> simulated thread id (thread id seen by quill = 1000 + it)
  std::map<int, std::vector<std::pair<uint64_t, std::string>>> logger_names; // slot -> [(seq, name)]
  std::vector<bool> sink_override;         // sink has its own override pattern
  std::string logger_name_at(int slot, uint64_t seq) const;

  static Model build(Plan const& p, History const& h);
  int64_t mask_of_logger_at(int slot, uint64_t seq) const;
};

std::string ids_to_string(std::vector<int64_t> const& v, size_t max = 24);
} // namespace vs
