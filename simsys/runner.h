// runner.h — bridge between the quill translation units (VM) and the driver
#pragma once
#include "history.h"
#include "plan.h"
namespace vs
{
struct RunInfoBridge
{
  bool stuck = false;
  std::string stuck_reason;
  bool completed = false;
  uint64_t faults_fired[16] = {};
};
[[noreturn]] void finish_child(Plan const&, History const&, RunInfoBridge const&);
void write_pre_record(std::string const& text);
} // namespace vs
