// vm.h — SIM-SYS: interpreter that drives the *real* quill library (frontend, queues, backend
// thread, transit buffers, formatters, sinks) from an explicit Plan under the deterministic
// scheduler of sim/. One instantiation per compile-time FrontendOptions configuration.
#pragma once
#define SIM_QUILL_INCLUDES "quill_all.h"
#include "prelude.h"

#include "history.h"
#include "plan.h"
#include "runner.h"
#include "destination.h"

#include <dirent.h>
#include <fcntl.h>
#include <sys/stat.h>
#include <unistd.h>

namespace vs
{
// ------------------------------------------------------------------------------------------------
// Non-template base: history recording, fault lookup. Only the baton holder ever runs, so no locks.
// ------------------------------------------------------------------------------------------------
struct VMBase
{
  Plan const& plan;
  History& H;
  std::unordered_map<int64_t, int64_t> fault_bits; // statement id -> fault bits (registered at invoke)
  std::vector<int> sim_to_plan;                    // sim thread id -> plan thread (-1 backend)
  bool flush_throw_armed = false;
  bool suppress_formatter = false; // set while the harness computes the expected text with the same formatter
  uint64_t faults_fired[16] = {};
  std::string scratch_dir;
  int next_dyn_id = 0;

  VMBase(Plan const& p, History& h) : plan(p), H(h) {}

  int plan_thread_of_self() const
  {
    int sid = sim::self_id();
    if (sid >= 0 && static_cast<size_t>(sid) < sim_to_plan.size())
    {
      return sim_to_plan[static_cast<size_t>(sid)];
    }
    return -1;
  }

  Ev& record(int type, int64_t a = 0, int64_t b = 0, int64_t c = 0, int64_t d = 0)
  {
    if (type == EV_FORMATTER_RAN && suppress_formatter)
    {
      static Ev dummy;
      return dummy;
    }
    Ev e;
    e.seq = sim::note(static_cast<uint64_t>(type), static_cast<uint64_t>(a));
    e.vt = sim::now_ns();
    e.thread = plan_thread_of_self();
    e.type = type;
    e.a = a;
    e.b = b;
    e.c = c;
    e.d = d;
    H.ev.push_back(std::move(e));
    return H.ev.back();
  }

  void map_thread(int sim_id, int plan_tid)
  {
    if (sim_id >= static_cast<int>(sim_to_plan.size()))
    {
      sim_to_plan.resize(static_cast<size_t>(sim_id) + 1, -1);
    }
    sim_to_plan[static_cast<size_t>(sim_id)] = plan_tid;
  }
};

// BackendOptions::check_printable_char as configured for the run (cfg printable_mode):
//   0 the library default (' '..'~' and '\n' are printable, the rest becomes \xHH)
//   1 a user callback that is stricter: additionally rejects 'q', 'Z' and '"' (characters that reach a message only through
//     string / char / user-type values in the harness's call sites, never through literal text or number formatting)
//   2 no callback: nothing is sanitised
inline int g_printable_mode = 0;

inline bool printable_ok(char c)
{
  bool const dflt = (c >= ' ' && c <= '~') || c == '\n';
  if (g_printable_mode == 1)
  {
    return dflt && c != 'q' && c != 'Z' && c != '"';
  }
  return dflt;
}

inline std::string typed_sanitize(std::string const& s)
{
  if (g_printable_mode == 2)
  {
    return s;
  }
  bool any = false;
  for (char c : s)
  {
    if (!printable_ok(c))
    {
      any = true;
    }
  }
  if (!any)
  {
    return s;
  }
  static char const hex[] = "0123456789ABCDEF";
  std::string o;
  for (char c : s)
  {
    if (printable_ok(c))
    {
      o.push_back(c);
    }
    else
    {
      o += "\\x";
      o.push_back(hex[(c >> 4) & 0xF]);
      o.push_back(hex[c & 0xF]);
    }
  }
  return o;
}

inline int64_t parse_id(std::string_view msg)
{
  // messages produced by the harness start with "#<digits>#"
  size_t p = msg.find('#');
  if (p == std::string_view::npos)
  {
    return -1;
  }
  size_t q = p + 1;
  int64_t v = 0;
  bool any = false;
  while (q < msg.size() && msg[q] >= '0' && msg[q] <= '9')
  {
    v = v * 10 + (msg[q] - '0');
    ++q;
    any = true;
  }
  if (!any || q >= msg.size() || msg[q] != '#')
  {
    return -1;
  }
  return v;
}

// ------------------------------------------------------------------------------------------------
// Recording sink: a user Sink subclass. Every call is a scheduler yield point and a history event;
// it throws on plan-chosen statements (F1) / flushes (F2).
// ------------------------------------------------------------------------------------------------
class RecordingSink : public quill::Sink
{
public:
  RecordingSink(int index, VMBase* vm, std::optional<quill::PatternFormatterOptions> override_opts = std::nullopt)
    : quill::Sink(std::move(override_opts)), _index(index), _vm(vm)
  {
  }

  ~RecordingSink() override { _vm->record(EV_SINK_DTOR, _index); }

  void write_log(quill::MacroMetadata const*, uint64_t log_timestamp, std::string_view thread_id,
                 std::string_view, std::string const&, std::string_view logger_name, quill::LogLevel log_level,
                 std::string_view, std::string_view, std::vector<std::pair<std::string, std::string>> const* named_args,
                 std::string_view log_message, std::string_view log_statement) override
  {
    int64_t const id = parse_id(log_message);
    sim::yield_point(sim::K_SINK, static_cast<uint64_t>(id));
    if (id >= 0)
    {
      auto it = _vm->fault_bits.find(id);
      if (it != _vm->fault_bits.end() && (it->second & (int64_t{1} << _index)) && _index < 8)
      {
        it->second &= ~(int64_t{1} << _index); // fire once
        ++_vm->faults_fired[1];
        _vm->record(EV_SINK_THROW, _index, id, 0);
        throw std::runtime_error("simulated sink write fault");
      }
    }
    Ev& e = _vm->record(EV_SINK_WRITE, _index, id, static_cast<int64_t>(log_timestamp), static_cast<int64_t>(log_level));
    e.s.assign(log_message.data(), log_message.size());
    e.s2.assign(log_statement.data(), log_statement.size());
    e.s2.append("\x1f");
    e.s2.append(thread_id.data(), thread_id.size());
    e.s2.append("\x1f");
    e.s2.append(logger_name.data(), logger_name.size());
    if (named_args)
    {
      for (auto const& kv : *named_args)
      {
        e.s2.append("\x1f");
        e.s2.append(kv.first);
        e.s2.append("=");
        e.s2.append(kv.second);
      }
    }
  }

  void flush_sink() override
  {
    sim::yield_point(sim::K_SINK, 1);
    if (_vm->flush_throw_armed && _index == 0)
    {
      _vm->flush_throw_armed = false;
      ++_vm->faults_fired[2];
      _vm->record(EV_SINK_THROW, _index, -1, 1);
      throw std::runtime_error("simulated sink flush fault");
    }
    _vm->record(EV_SINK_FLUSH, _index);
  }

  int index() const noexcept { return _index; }

private:
  int _index;
  VMBase* _vm;
};

// harness filters (C16)
// A user sink that keeps what it is given (rows of a CsvWriter built on a user-supplied sink; sink-registry histories)
class RowSink : public quill::Sink
{
public:
  void write_log(quill::MacroMetadata const*, uint64_t, std::string_view, std::string_view, std::string const&, std::string_view,
                 quill::LogLevel, std::string_view, std::string_view, std::vector<std::pair<std::string, std::string>> const*,
                 std::string_view, std::string_view log_statement) override
  {
    sim::yield_point(sim::K_SINK, 2);
    rows.append(log_statement.data(), log_statement.size());
  }
  void flush_sink() override {}
  std::string rows;
};

class HarnessFilter : public quill::Filter
{
public:
  HarnessFilter(std::string name, int kind, int64_t param) : quill::Filter(std::move(name)), _kind(kind), _param(param) {}
  bool filter(quill::MacroMetadata const*, uint64_t, std::string_view, std::string_view, std::string_view logger_name,
              quill::LogLevel log_level, std::string_view log_message, std::string_view) noexcept override
  {
    return decide(_kind, _param, static_cast<int>(log_level), parse_id(log_message), logger_name);
  }
  static bool decide(int kind, int64_t param, int level, int64_t id, std::string_view logger_name)
  {
    switch (kind)
    {
    case 0: // by level: accept level >= param
      return level >= param;
    case 1: // by id parity
      return id < 0 || ((id & 1) == (param & 1));
    case 2: // by logger: reject logger whose name ends with the digit param
      return logger_name.empty() || (logger_name.back() - '0') != param;
    default:
      return true;
    }
  }

private:
  int _kind;
  int64_t _param;
};

struct CsvSchema
{
  static constexpr char const* header = "id,text,value";
  static constexpr char const* format = "{},{},{:.2f}";
};

struct UserClock : quill::UserClockSource
{
  // a user clock that is not monotonic across threads on purpose: the timestamp ordering clause
  // does not apply to it
  uint64_t now() const override
  {
    uint64_t const v = sim::now_ns() + 1700000000ull * 1000000000ull;
    if (t_armed)
    {
      t_armed = false;
      t_first = v;
    }
    return v;
  }
  // the first value handed to the calling thread since mark(): what a user-clock statement of that call must carry
  static void mark()
  {
    t_armed = true;
    t_first = 0;
  }
  static uint64_t first()
  {
    t_armed = false;
    return t_first;
  }
  static inline thread_local bool t_armed = false;
  static inline thread_local uint64_t t_first = 0;
};

// user types with formatters that can be told to throw (F5)
struct ThrowCtl
{
  static inline int mode = 0; // consulted on the backend thread when formatting
};
struct FaultyDeferred
{
  int64_t id;
  int mode; // 0 ok, 1 std::runtime_error, 2 int, 3 struct
};
struct PlainStructException
{
  int x;
};
} // namespace vs

template <>
struct fmtquill::formatter<vs::FaultyDeferred>
{
  constexpr auto parse(format_parse_context& ctx) { return ctx.begin(); }
  auto format(vs::FaultyDeferred const& v, format_context& ctx) const
  {
    if (v.mode == 1)
    {
      throw std::runtime_error("user formatter failed");
    }
    if (v.mode == 2)
    {
      throw 42;
    }
    if (v.mode == 3)
    {
      throw vs::PlainStructException{7};
    }
    return fmtquill::format_to(ctx.out(), "FD({})", v.id);
  }
};
template <>
struct quill::Codec<vs::FaultyDeferred> : quill::DeferredFormatCodec<vs::FaultyDeferred>
{
};

namespace vs
{
#define VS_LOG_AT(LEVEL_ENUM, lg, fmt, ...)                                                                     \
  [&]() -> int                                                                                                  \
  {                                                                                                             \
    if (!(lg)->template should_log_statement<LEVEL_ENUM>())                                                     \
    {                                                                                                           \
      return -1;                                                                                                \
    }                                                                                                           \
    static constexpr quill::MacroMetadata md{__FILE__ ":" QUILL_STRINGIFY(__LINE__),                            \
                                             "vm",                                                              \
                                             fmt,                                                               \
                                             nullptr,                                                           \
                                             LEVEL_ENUM,                                                        \
                                             quill::MacroMetadata::Event::Log};                                 \
    return (lg)->template log_statement<false, false>(quill::LogLevel::None, &md, ##__VA_ARGS__) ? 1 : 0;       \
  }()

#define VS_LOG(level_int, result, lg, fmt, ...)                                                                 \
  switch (level_int)                                                                                            \
  {                                                                                                             \
  case 0: result = VS_LOG_AT(quill::LogLevel::TraceL3, lg, fmt, ##__VA_ARGS__); break;                          \
  case 1: result = VS_LOG_AT(quill::LogLevel::TraceL2, lg, fmt, ##__VA_ARGS__); break;                          \
  case 2: result = VS_LOG_AT(quill::LogLevel::TraceL1, lg, fmt, ##__VA_ARGS__); break;                          \
  case 3: result = VS_LOG_AT(quill::LogLevel::Debug, lg, fmt, ##__VA_ARGS__); break;                            \
  case 4: result = VS_LOG_AT(quill::LogLevel::Info, lg, fmt, ##__VA_ARGS__); break;                             \
  case 5: result = VS_LOG_AT(quill::LogLevel::Notice, lg, fmt, ##__VA_ARGS__); break;                           \
  case 6: result = VS_LOG_AT(quill::LogLevel::Warning, lg, fmt, ##__VA_ARGS__); break;                          \
  case 7: result = VS_LOG_AT(quill::LogLevel::Error, lg, fmt, ##__VA_ARGS__); break;                            \
  default: result = VS_LOG_AT(quill::LogLevel::Critical, lg, fmt, ##__VA_ARGS__); break;                        \
  }

extern VMBase* g_vm;
void abandon_trampoline(char const* reason);

template <class FO>
struct VM : VMBase
{
  using Fe = quill::FrontendImpl<FO>;
  using Lg = quill::LoggerImpl<FO>;

  struct Slot
  {
    Lg* lg = nullptr;
    bool valid = false;
    int generation = 0;
    int64_t sink_mask = 0;
    int clock = 0;
    std::string name;
  };

  std::vector<std::shared_ptr<quill::Sink>> sinks; // the user's references
  std::vector<int> sink_type;
  std::vector<std::string> sink_path;
  std::vector<int64_t> sink_rotating; // > 0: a RotatingFileSink with this size limit
  std::vector<Slot> slots;
  std::vector<std::thread> threads;
  std::vector<bool> spawned, joined;
  std::map<int64_t, int64_t> barrier_count;
  UserClock user_clock;
  int backend_sim_id = -1;
  bool backend_running = false;
  int live_logged_threads = 0;
  std::vector<bool> thread_logged;

  VM(Plan const& p, History& h) : VMBase(p, h)
  {
    slots.reserve(256); // loggers created later (also by several threads at once) must not move the others
  }

  quill::BackendOptions backend_options()
  {
    quill::BackendOptions bo;
    bo.check_backend_singleton_instance = false;
    bo.transit_events_soft_limit = static_cast<size_t>(plan.get("soft", 4096));
    bo.transit_events_hard_limit = static_cast<size_t>(plan.get("hard", 32768));
    bo.transit_event_buffer_initial_capacity = static_cast<uint32_t>(plan.get("transit_cap", 256));
    bo.log_timestamp_ordering_grace_period = std::chrono::microseconds{plan.get("grace_us", 1)};
    bo.sleep_duration = std::chrono::nanoseconds{plan.get("sleep_ns", 100000)};
    bo.sink_min_flush_interval = std::chrono::milliseconds{plan.get("flush_ms", 200)};
    bo.wait_for_queues_to_empty_before_exit = plan.get("wait_empty", 1) != 0;
    bo.enable_yield_when_idle = plan.get("yield_idle", 0) != 0;
    bo.error_notifier = [this](std::string const& s)
    {
      Ev& e = this->record(EV_NOTIFIER);
      e.s = s;
    };
    g_printable_mode = static_cast<int>(plan.get("printable_mode", 0));
    if (g_printable_mode == 1)
    {
      bo.check_printable_char = [](char c) { return printable_ok(c); };
    }
    else if (g_printable_mode == 2)
    {
      bo.check_printable_char = {};
    }
    return bo;
  }

  static quill::MacroMetadata const& cyc_metadata()
  {
    static constexpr quill::MacroMetadata md{"vm.h:1", "vm", "cyc {}", nullptr, quill::LogLevel::Info, quill::MacroMetadata::Event::Log};
    return md;
  }

  std::string logger_pattern(int slot) const
  {
    (void)slot;
    return "L%(logger)|%(log_level)|%(thread_id)|%(message)";
  }

  void make_sink(int i)
  {
    int type = static_cast<int>(plan.get("sink" + std::to_string(i) + "_type", 0));
    bool override_pattern = plan.get("sink" + std::to_string(i) + "_override", 0) != 0;
    if (static_cast<int>(sinks.size()) <= i)
    {
      sinks.resize(static_cast<size_t>(i) + 1);
      sink_type.resize(static_cast<size_t>(i) + 1, 0);
      sink_path.resize(static_cast<size_t>(i) + 1);
    }
    if (sink_rotating.size() < sinks.size())
    {
      sink_rotating.resize(sinks.size(), 0);
    }
    sink_type[static_cast<size_t>(i)] = type;
    std::string name = "sink" + std::to_string(i);
    if (type == 0)
    {
      std::optional<quill::PatternFormatterOptions> ov;
      if (override_pattern)
      {
        ov = quill::PatternFormatterOptions{"S" + std::to_string(i) + "|%(log_level_short_code)|%(message)"};
      }
      sinks[static_cast<size_t>(i)] = Fe::template create_or_get_sink<RecordingSink>(name, i, static_cast<VMBase*>(this), ov);
    }
    else
    {
      quill::FileSinkConfig cfg;
      cfg.set_open_mode('w');
      cfg.set_override_pattern_formatter_options(quill::PatternFormatterOptions{"%(message)"});
      std::string path = scratch_dir + "/" + name + ".log";
      sink_path[static_cast<size_t>(i)] = path;
      if (type == 2)
      {
        // JsonFileSink: one JSON object per statement (the format template, the source location and the named arguments)
        // Its before_write callback rejects (throws for) every text that names a statement the plan marked for this sink —
        // a content-dependent failure of a real sink's write.
        quill::FileEventNotifier fen;
        fen.before_write = [this, i](std::string_view message) -> std::string
        {
          size_t pos = 0;
          while ((pos = message.find("\"sid\":\"", pos)) != std::string_view::npos)
          {
            pos += 7;
            int64_t id = 0;
            while (pos < message.size() && message[pos] >= '0' && message[pos] <= '9')
            {
              id = id * 10 + (message[pos++] - '0');
            }
            auto it = this->fault_bits.find(id);
            if (it != this->fault_bits.end() && ((it->second >> i) & 1))
            {
              ++this->faults_fired[1];
              this->record(EV_SINK_THROW, i, id, 0);
              throw std::runtime_error("simulated before_write rejection");
            }
          }
          return std::string{message};
        };
        sinks[static_cast<size_t>(i)] = Fe::template create_or_get_sink<quill::JsonFileSink>(path, cfg, fen);
      }
      else if (type == 1 && plan.get("sink" + std::to_string(i) + "_rotating", 0) > 0 &&
               plan.get("sink" + std::to_string(i) + "_notifier", 0) != 2)
      {
        // a RotatingFileSink (index naming, no backup limit, optionally minutely rotation on top of the size limit): the
        // destination is the set of its files
        int64_t const limit = plan.get("sink" + std::to_string(i) + "_rotating", 0);
        sink_rotating[static_cast<size_t>(i)] = limit;
        quill::RotatingFileSinkConfig rcfg;
        rcfg.set_open_mode('w');
        rcfg.set_override_pattern_formatter_options(quill::PatternFormatterOptions{"%(message)"});
        rcfg.set_rotation_max_file_size(static_cast<size_t>(limit));
        rcfg.set_max_backup_files(std::numeric_limits<uint32_t>::max());
        if (plan.get("sink" + std::to_string(i) + "_rot_minutely", 0) != 0)
        {
          rcfg.set_rotation_frequency_and_interval('M', 1);
        }
        quill::FileEventNotifier fen;
        if (plan.get("sink" + std::to_string(i) + "_notifier", 0) == 1)
        {
          fen.before_open = [](quill::fs::path const&) {};
          fen.after_open = [](quill::fs::path const&, FILE*) {};
          fen.before_close = [](quill::fs::path const&, FILE*) {};
          fen.after_close = [](quill::fs::path const&) {};
          fen.before_write = [](std::string_view message) { return std::string{message}; };
        }
        sinks[static_cast<size_t>(i)] = Fe::template create_or_get_sink<quill::RotatingFileSink>(path, rcfg, fen);
      }
      else if (plan.get("sink" + std::to_string(i) + "_notifier", 0) != 0)
      {
        // a FileSink with user callbacks on file events; before_write hands the statement through unchanged
        quill::FileEventNotifier fen;
        fen.before_open = [](quill::fs::path const&) {};
        fen.after_open = [](quill::fs::path const&, FILE*) {};
        fen.before_close = [](quill::fs::path const&, FILE*) {};
        fen.after_close = [](quill::fs::path const&) {};
        fen.before_write = [](std::string_view message) { return std::string{message}; };
        if (plan.get("sink" + std::to_string(i) + "_notifier", 0) == 3)
        {
          // the callbacks report the closing of the file (C17: "destroyed and its file closed"); the file is read back in the
          // very step in which after_close runs
          fen.before_close = [this, i](quill::fs::path const&, FILE*)
          {
            Ev& e = this->record(EV_NOTE, 5, i);
            e.s = "before_close";
          };
          fen.after_close = [this, i, path](quill::fs::path const&)
          {
            Ev& e = this->record(EV_FILE_SNAP, i);
            e.c = 1; // taken at the close
            e.s = read_whole_file(path);
            this->record(EV_SINK_DTOR, i);
          };
        }
        if (plan.get("sink" + std::to_string(i) + "_notifier", 0) == 2)
        {
          // the after_open callback fails whenever the sink re-opens its file (it does after somebody deleted the file)
          auto opens = std::make_shared<int>(0);
          fen.after_open = [this, i, opens](quill::fs::path const&, FILE*)
          {
            if (++*opens >= 2)
            {
              ++this->faults_fired[2];
              this->record(EV_SINK_THROW, i, -1, 1);
              Ev& e = this->record(EV_NOTE, 4, i);
              e.s = "reopen";
              throw std::runtime_error("simulated after_open failure");
            }
          };
        }
        sinks[static_cast<size_t>(i)] = Fe::template create_or_get_sink<quill::FileSink>(path, cfg, fen);
      }
      else
      {
        sinks[static_cast<size_t>(i)] = Fe::template create_or_get_sink<quill::FileSink>(path, cfg);
      }
    }
  }

  Lg* make_logger(int slot, int64_t sink_mask, int clock, std::string const& name)
  {
    std::vector<std::shared_ptr<quill::Sink>> ss;
    for (size_t i = 0; i < sinks.size(); ++i)
    {
      if ((sink_mask >> i) & 1)
      {
        if (!sinks[i])
        {
          make_sink(static_cast<int>(i));
        }
        ss.push_back(sinks[i]);
      }
    }
    if (ss.empty())
    {
      if (!sinks[0])
      {
        make_sink(0);
      }
      ss.push_back(sinks[0]);
      sink_mask = 1;
    }
    quill::ClockSourceType cs = clock == 1 ? quill::ClockSourceType::Tsc
      : (clock == 2 ? quill::ClockSourceType::User : quill::ClockSourceType::System);
    Lg* lg = Fe::create_or_get_logger(name, std::move(ss), quill::PatternFormatterOptions{logger_pattern(slot)}, cs,
                                      clock == 2 ? &user_clock : nullptr);
    lg->set_log_level(quill::LogLevel::TraceL3);
    if (static_cast<int>(slots.size()) <= slot)
    {
      slots.resize(static_cast<size_t>(slot) + 1); // (capacity reserved at construction: references stay valid)
    }
    Slot& s = slots[static_cast<size_t>(slot)];
    if (s.valid && s.name == name && s.lg != lg)
    {
      // another thread created the same name while this call was in progress: both must have got the same object
      record(EV_GET_LOGGER, slot, 1, 0);
    }
    else if (s.valid && s.name == name)
    {
      record(EV_GET_LOGGER, slot, 1, 1);
    }
    s.lg = lg;
    s.valid = true;
    s.sink_mask = sink_mask;
    s.clock = clock;
    s.name = name;
    return lg;
  }

  // backend mode "manual": a simulated thread drives quill's ManualBackendWorker (poll_one / poll) instead of the
  // library's own backend thread
  std::thread manual_thread;
  bool manual_stop = false, manual_ready = false, manual_used = false;

  void start_manual_backend()
  {
    if (manual_used)
    {
      return; // acquire_manual_backend_worker() can be called once per process
    }
    manual_used = true;
    manual_stop = false;
    manual_ready = false;
    int before = sim::thread_count();
    map_thread(before, -1);
    H.backend_ids.push_back(before);
    backend_sim_id = before;
    manual_thread = std::thread(
      [this]()
      {
        quill::ManualBackendWorker* w = quill::Backend::acquire_manual_backend_worker();
        w->init(backend_options());
        manual_ready = true;
        int64_t const gap = plan.get("manual_gap_ns", 300);
        int64_t const every = plan.get("manual_gap_every", 3);
        bool const use_poll = plan.get("manual_poll_all", 0) != 0;
        uint64_t n = 0;
        while (!manual_stop)
        {
          if (use_poll && (n % 7 == 3))
          {
            w->poll();
          }
          else
          {
            w->poll_one();
          }
          ++n;
          if (gap > 0 && every > 0 && (n % static_cast<uint64_t>(every)) == 0)
          {
            std::this_thread::sleep_for(std::chrono::nanoseconds{gap}); // the user's event loop does other work
          }
        }
        w->poll(); // drain everything that is left
        // ...and keep polling while idle for a moment, as a user's event loop would: the idle path is what reports
        // failure counters and cleans up removed loggers / exited threads' contexts (the exit drain of the
        // ManualBackendWorker destructor is out of reach: the run ends with _exit)
        for (int k = 0; k < 3; ++k)
        {
          w->poll_one();
        }
        w->poll();
      });
    while (!manual_ready)
    {
      std::this_thread::sleep_for(std::chrono::microseconds{1});
    }
    backend_running = true;
    record(EV_START_RETURN, before);
  }

  void stop_backend()
  {
    if (plan.get("backend_mode", 0) == 1)
    {
      manual_stop = true;
      if (manual_thread.joinable())
      {
        manual_thread.join();
      }
    }
    else
    {
      quill::Backend::stop();
    }
    backend_running = false;
  }

  void start_backend()
  {
    if (plan.get("backend_mode", 0) == 1)
    {
      start_manual_backend();
      return;
    }
    int before = sim::thread_count();
    quill::BackendOptions bo = backend_options();
    if (plan.get("signal_handler", 0))
    {
      quill::SignalHandlerOptions so;
      so.logger = plan.get("sig_logger_named", 0) ? slots[0].name : std::string{};
      quill::Backend::start<FO>(bo, so);
    }
    else
    {
      quill::Backend::start(bo);
    }
    backend_sim_id = before;
    map_thread(before, -1);
    H.backend_ids.push_back(before);
    backend_running = true;
    record(EV_START_RETURN, before);
  }

  void snapshot_files()
  {
    for (size_t i = 0; i < sinks.size(); ++i)
    {
      if (sink_type[i] != 0)
      {
        Ev& e = record(EV_FILE_SNAP, static_cast<int64_t>(i));
        e.s = sink_rotating[i] > 0 ? read_rotating_destination(sink_path[i], &e.b) : read_whole_file(sink_path[i]); // b: rotated files
      }
    }
  }

  Slot* slot_of(int64_t idx)
  {
    if (slots.empty())
    {
      return nullptr;
    }
    size_t i = static_cast<size_t>(idx) % slots.size();
    return &slots[i];
  }

  // ---------------------------------------------------------------------------------------------
  void do_log(int tid, int opi, Op const& op);
  void do_bt_log(int tid, int opi, Op const& op);
  void do_log_typed(int tid, int opi, Op const& op);
  void do_log_macro(int tid, int opi, Op const& op);

  void note_thread_logged(int tid)
  {
    if (!thread_logged[static_cast<size_t>(tid)])
    {
      thread_logged[static_cast<size_t>(tid)] = true;
      ++live_logged_threads;
    }
  }

  void exec_op(int tid, int opi, Op const& op)
  {
    switch (op.k)
    {
    case OP_LOG:
      do_log(tid, opi, op);
      break;
    case OP_LOG_TYPED:
      do_log_typed(tid, opi, op);
      break;
    case OP_LOG_MACRO:
      do_log_macro(tid, opi, op);
      break;
    case OP_BT_LOG:
      do_bt_log(tid, opi, op);
      break;
    case OP_FLUSH:
    {
      Slot* s = slot_of(op.v[0]);
      if (!s || !s->valid || !backend_running)
      {
        break;
      }
      note_thread_logged(tid);
      record(EV_FLUSH_INVOKE, op.v[0]);
      s->lg->flush_log(static_cast<uint32_t>(op.v[1] ? op.v[1] : 100));
      record(EV_FLUSH_RETURN, op.v[0]);
      snapshot_files();
      break;
    }
    case OP_SLEEP:
      std::this_thread::sleep_for(std::chrono::nanoseconds{op.v[0]});
      break;
    case OP_NOTIFY:
      quill::Backend::notify();
      break;
    case OP_SET_LEVEL:
    {
      Slot* s = slot_of(op.v[0]);
      if (!s || !s->valid)
      {
        break;
      }
      record(EV_SET_LEVEL, op.v[0], op.v[1], 0);
      s->lg->set_log_level(static_cast<quill::LogLevel>(op.v[1]));
      record(EV_SET_LEVEL, op.v[0], op.v[1], 1);
      break;
    }
    case OP_SINK_LEVEL:
    {
      size_t i = static_cast<size_t>(op.v[0]) % sinks.size();
      if (sinks[i])
      {
        sinks[i]->set_log_level_filter(static_cast<quill::LogLevel>(op.v[1]));
        record(EV_SINK_LEVEL, static_cast<int64_t>(i), op.v[1]);
      }
      break;
    }
    case OP_ADD_FILTER:
    {
      size_t i = static_cast<size_t>(op.v[0]) % sinks.size();
      if (sinks[i])
      {
        std::string fname = "f" + std::to_string(op.v[1]) + "_" + std::to_string(op.v[2]);
        QUILL_TRY
        {
          sinks[i]->add_filter(std::make_unique<HarnessFilter>(fname, static_cast<int>(op.v[1]), op.v[2]));
          record(EV_ADD_FILTER, static_cast<int64_t>(i), op.v[1], op.v[2]);
        }
        QUILL_CATCH(quill::QuillError const&) {}
      }
      break;
    }
    case OP_BARRIER:
    {
      int64_t& c = barrier_count[op.v[0]];
      ++c;
      while (barrier_count[op.v[0]] < op.v[1])
      {
        std::this_thread::sleep_for(std::chrono::nanoseconds{500});
      }
      break;
    }
    case OP_CREATE_LOGGER:
    {
      size_t slot = static_cast<size_t>(op.v[0]);
      if (slot < slots.size() && slots[slot].valid)
      {
        // already exists: creating it again is a lookup that must return the same object
        Slot& es = slots[slot];
        std::vector<std::shared_ptr<quill::Sink>> ss;
        for (size_t i = 0; i < sinks.size(); ++i)
        {
          if (((es.sink_mask >> i) & 1) && sinks[i])
          {
            ss.push_back(sinks[i]);
          }
        }
        if (ss.empty())
        {
          break;
        }
        Lg* again = Fe::create_or_get_logger(es.name, std::move(ss), quill::PatternFormatterOptions{logger_pattern(static_cast<int>(slot))},
                                             quill::ClockSourceType::System, nullptr);
        record(EV_GET_LOGGER, static_cast<int64_t>(slot), again != nullptr, again == es.lg);
        break;
      }
      int gen = slot < slots.size() ? slots[slot].generation + 1 : 1;
      record(EV_CREATE_LOGGER, op.v[0], op.v[1], 0, gen);
      // name index 0 = "the same name": the name the slot's logger had last (the one a blocking removal has just freed) — not
      // the slot's first name, which an *asynchronous* removal may have left pending many steps earlier (documented as
      // unsupported; a false crash:Aborted at VERIF_SEED=109, DESIGN.md Corrections 19)
      std::string name = op.v[3] ? "lg" + std::to_string(op.v[3])
                                 : (slot < slots.size() && !slots[slot].name.empty() ? slots[slot].name : "lg" + std::to_string(op.v[0]));
      make_logger(static_cast<int>(slot), op.v[1], static_cast<int>(op.v[2]), name);
      slots[slot].generation = gen;
      Ev& ce = record(EV_CREATE_LOGGER, op.v[0], slots[slot].sink_mask, 1, gen);
      ce.s = name;
      break;
    }
    case OP_REMOVE_LOGGER:
    case OP_REMOVE_BLOCKING:
    {
      Slot* s = slot_of(op.v[0]);
      if (!s || !s->valid || !backend_running)
      {
        break;
      }
      bool blocking = op.k == OP_REMOVE_BLOCKING;
      int64_t slot_index = s - slots.data();
      record(EV_REMOVE_LOGGER, slot_index, blocking, 0, s->generation);
      s->valid = false;
      Lg* lg = s->lg;
      if (blocking)
      {
        note_thread_logged(tid);
        Fe::remove_logger_blocking(lg);
      }
      else
      {
        Fe::remove_logger(lg);
      }
      // (no reference into the history may be held across a quill call: other threads append to it)
      std::string after;
      if (blocking)
      {
        after = Fe::get_logger(s->name) == nullptr ? "gone" : "present";
      }
      Ev& e = record(EV_REMOVE_LOGGER, slot_index, blocking, 1, s->generation);
      e.s = after;
      break;
    }
    case OP_GET_LOGGER:
    {
      Slot* s = slot_of(op.v[0]);
      if (!s || !s->valid)
      {
        break;
      }
      Lg* g = Fe::get_logger(s->name);
      record(EV_GET_LOGGER, s - slots.data(), g != nullptr, g == s->lg);
      break;
    }
    case OP_DELETE_FILE:
    {
      size_t i = static_cast<size_t>(op.v[0]) % sinks.size();
      if (sink_type[i] == 1 && sink_rotating[i] == 0)
      {
        ::unlink(sink_path[i].c_str());
        Ev& e = record(EV_NOTE, 3, static_cast<int64_t>(i));
        e.s = "delete_file";
      }
      break;
    }
    case OP_GET_SINK:
    {
      size_t i = static_cast<size_t>(op.v[0]) % sinks.size();
      if (sink_type[i] != 0)
      {
        break;
      }
      // the object in use: the user's reference, or the one a valid logger holds
      quill::Sink* in_use = sinks[i].get();
      if (!in_use)
      {
        for (auto& sl : slots)
        {
          if (sl.valid && ((sl.sink_mask >> i) & 1))
          {
            for (auto const& sp : sl.lg->get_sinks())
            {
              if (auto* rs = dynamic_cast<RecordingSink*>(sp.get()); rs && rs->index() == static_cast<int>(i))
              {
                in_use = sp.get();
              }
            }
          }
        }
      }
      if (!in_use)
      {
        break;
      }
      std::shared_ptr<quill::Sink> got;
      QUILL_TRY { got = Fe::get_sink("sink" + std::to_string(i)); }
      QUILL_CATCH(quill::QuillError const&) {}
      record(EV_GET_SINK, static_cast<int64_t>(i), got != nullptr, got.get() == in_use);
      break;
    }
    case OP_CSV:
    {
      // a CsvWriter scope over a file name: construct (logger + FileSink), append rows, destroy (blocking removal);
      // afterwards the file holds the header and every row, and the same name can be used again
      if (!backend_running || FO::queue_type == quill::QueueType::BoundedDropping ||
          FO::queue_type == quill::QueueType::UnboundedDropping)
      {
        break;
      }
      note_thread_logged(tid);
      if (op.v[2] == 1)
      {
        // CsvWriter on a user-supplied sink that the user keeps referencing: when the writer's scope ends every row is in
        // the sink, and a writer of the same name can be created at once
        std::string const uname = "csvsink" + std::to_string(tid);
        auto rs = std::make_shared<RowSink>();
        std::string expected2, actual2;
        for (int round = 0; round < 2; ++round)
        {
          expected2 += std::string(CsvSchema::header) + "\n";
          {
            quill::CsvWriter<CsvSchema, FO> w(uname, std::static_pointer_cast<quill::Sink>(rs));
            for (int64_t k = 0; k < op.v[1]; ++k)
            {
              int64_t const rid = static_cast<int64_t>(tid) * 1000000 + opi * 100 + k + round * 50;
              std::string cell = payload(static_cast<uint64_t>(rid), static_cast<size_t>(k % 17));
              w.append_row(rid, cell, static_cast<double>(k) / 4.0);
              expected2 += fmtquill::format("{},{},{:.2f}\n", rid, cell, static_cast<double>(k) / 4.0);
            }
          }
          actual2 = rs->rows; // (read in the step in which the destructor returned)
          if (actual2 != expected2)
          {
            break;
          }
        }
        Ev& e2 = record(EV_CSV, 1000 + tid, op.v[1]);
        e2.s = expected2;
        e2.s2 = actual2;
        break;
      }
      if (op.v[2] == 2)
      {
        // a history over one sink name: the user keeps its reference past a completed blocking removal, drops it (the registry
        // then holds an expired entry), creates the name again and looks it up: one object, found every time
        std::string const sname = "cycsink" + std::to_string(tid);
        std::string const lname = "cyclg" + std::to_string(tid);
        bool found = true, same = true;
        QUILL_TRY
        {
          std::shared_ptr<quill::Sink> s1 = Fe::template create_or_get_sink<RowSink>(sname);
          Lg* lc = Fe::create_or_get_logger(lname, s1, quill::PatternFormatterOptions{"%(message)"});
          lc->template log_statement<false, false>(quill::LogLevel::None, &cyc_metadata(), static_cast<int64_t>(opi));
          Fe::remove_logger_blocking(lc);
          s1.reset();
          std::shared_ptr<quill::Sink> s2 = Fe::template create_or_get_sink<RowSink>(sname);
          std::shared_ptr<quill::Sink> s3 = Fe::template create_or_get_sink<RowSink>(sname);
          std::shared_ptr<quill::Sink> s4 = Fe::get_sink(sname);
          same = s2.get() == s3.get() && s3.get() == s4.get();
        }
        QUILL_CATCH(quill::QuillError const&) { found = false; }
        record(EV_GET_SINK, 1000 + tid, found, same);
        break;
      }
      std::string const path = "csv" + std::to_string(op.v[0]) + ".csv"; // relative to the scratch directory (see run_plan_impl)
      std::string expected = std::string(CsvSchema::header) + "\n";
      {
        quill::CsvWriter<CsvSchema, FO> w(path, 'w');
        for (int64_t k = 0; k < op.v[1]; ++k)
        {
          int64_t const rid = static_cast<int64_t>(tid) * 1000000 + opi * 100 + k;
          std::string cell = payload(static_cast<uint64_t>(rid), static_cast<size_t>(k % 17));
          w.append_row(rid, cell, static_cast<double>(k) / 4.0);
          expected += fmtquill::format("{},{},{:.2f}\n", rid, cell, static_cast<double>(k) / 4.0);
        }
      }
      std::string actual = read_whole_file(path);
      Ev& e = record(EV_CSV, op.v[0], op.v[1]);
      e.s = expected;
      e.s2 = actual;
      break;
    }
    case OP_DROP_SINK_REF:
    {
      size_t i = static_cast<size_t>(op.v[0]) % sinks.size();
      Ev& e = record(EV_NOTE, 1, static_cast<int64_t>(i));
      e.s = "drop_sink_ref";
      sinks[i].reset();
      break;
    }
    case OP_BT_INIT:
    {
      Slot* s = slot_of(op.v[0]);
      if (!s || !s->valid)
      {
        break;
      }
      note_thread_logged(tid);
      record(EV_BT_INIT, op.v[0], op.v[1], op.v[2], 0);
      s->lg->init_backtrace(static_cast<uint32_t>(op.v[1]), static_cast<quill::LogLevel>(op.v[2]));
      record(EV_BT_INIT, op.v[0], op.v[1], op.v[2], 1);
      break;
    }
    case OP_BT_FLUSH:
    {
      Slot* s = slot_of(op.v[0]);
      if (!s || !s->valid)
      {
        break;
      }
      note_thread_logged(tid);
      record(EV_BT_FLUSH, op.v[0], 0, 0, 0);
      s->lg->flush_backtrace();
      record(EV_BT_FLUSH, op.v[0], 0, 0, 1);
      break;
    }
    case OP_SPAWN:
    {
      size_t t = static_cast<size_t>(op.v[0]);
      if (t == 0 || t >= plan.threads.size() || spawned[t])
      {
        break;
      }
      spawned[t] = true;
      int sid = sim::thread_count();
      map_thread(sid, static_cast<int>(t));
      H.status[t].sim_id = sid;
      threads[t] = std::thread([this, t]() { this->thread_main(static_cast<int>(t)); });
      break;
    }
    case OP_JOIN:
    {
      size_t t = static_cast<size_t>(op.v[0]);
      if (t == 0 || t >= plan.threads.size() || !spawned[t] || joined[t])
      {
        break;
      }
      joined[t] = true;
      threads[t].join();
      break;
    }
    case OP_PREALLOC:
      Fe::preallocate();
      note_thread_logged(tid);
      break;
    case OP_SHRINK:
    {
      note_thread_logged(tid);
      size_t before = Fe::get_thread_local_queue_capacity();
      Fe::shrink_thread_local_queue(static_cast<size_t>(op.v[0]));
      size_t after = Fe::get_thread_local_queue_capacity();
      record(EV_SHRINK, op.v[0], static_cast<int64_t>(before), static_cast<int64_t>(after));
      break;
    }
    case OP_STOP:
      if (backend_running)
      {
        record(EV_STOP_INVOKE);
        stop_backend();
        record(EV_STOP_RETURN);
        snapshot_files();
      }
      break;
    case OP_START:
      if (!backend_running)
      {
        start_backend();
      }
      break;
    case OP_STALL:
    {
      int target = -1;
      if (op.v[0] < 0)
      {
        target = backend_sim_id;
      }
      else
      {
        size_t t = static_cast<size_t>(op.v[0]) % plan.threads.size();
        target = H.status[t].sim_id;
      }
      if (target >= 0)
      {
        // v1 = kind + 256 * previous kind of the same thread (0 = any)
        sim::arm_stall(target, static_cast<uint8_t>(op.v[1] & 0xFF), static_cast<uint32_t>(op.v[2]), static_cast<uint64_t>(op.v[3]),
                       static_cast<uint8_t>((op.v[1] >> 8) & 0xFF));
      }
      break;
    }
    case OP_FAIR:
      sim::force_fair_phase();
      break;
    case OP_CHECK_CTX:
    {
      // Quiescent point: everything this thread can see has been flushed; give the backend idle
      // polls (it reclaims contexts only when idle) and compare the number of contexts it retains
      // with the number of live threads that have logged.
      // The wait is progress based, not time based: as long as the backend still writes statements (without a grace period
      // flush_log() covers the caller's statements only, and with a soft limit of a few events every statement costs a pass
      // over all queues: hundreds of exited threads take hundreds of thousands of backend steps to drain) or the surplus keeps
      // shrinking, it keeps waiting — a fixed 60 x 20 us wait raised a false alarm at VERIF_SEED=14 and 17. It gives up after
      // 200 rounds in which nothing was written and nothing reclaimed.
      int64_t expected = live_logged_threads;
      int64_t seen = -1;
      int64_t best_surplus = INT64_MAX;
      size_t events_seen = H.ev.size();
      int stale = 0;
      for (int round = 0; round < 20000; ++round)
      {
        expected = live_logged_threads; // (a long-lived thread may log for the first time while we wait)
        int64_t n = 0;
        quill::detail::ThreadContextManager::instance().for_each_thread_context(
          [&n](quill::detail::ThreadContext*) { ++n; });
        seen = n;
        if (n == expected)
        {
          break;
        }
        if (n - expected < best_surplus || H.ev.size() != events_seen)
        {
          best_surplus = std::min(best_surplus, n - expected);
          events_seen = H.ev.size();
          stale = 0;
        }
        else if (++stale >= 200)
        {
          break;
        }
        std::this_thread::sleep_for(std::chrono::nanoseconds{plan.get("sleep_ns", 100000) * 3 + 20000});
      }
      record(EV_CTX_COUNT, seen, expected);
      break;
    }
    case OP_EXIT:
    case OP_RAISE:
    case OP_FAULT:
    case OP_RETURN:
      terminal(tid, op);
      break;
    default:
      break;
    }
  }

  void terminal(int tid, Op const& op);

  void thread_main(int tid)
  {
    OpStatus& st = H.status[static_cast<size_t>(tid)];
    st.started = true;
    st.sim_id = sim::self_id();
    record(EV_THREAD_START, tid, st.sim_id);
    auto const& ops = plan.threads[static_cast<size_t>(tid)];
    for (size_t i = 0; i < ops.size(); ++i)
    {
      if (sim::exiting())
      {
        sim::park_forever();
      }
      st.op_index = static_cast<int>(i);
      st.op_kind = ops[i].k;
      st.in_op = true;
      exec_op(tid, static_cast<int>(i), ops[i]);
      st.in_op = false;
    }
    if (tid != 0)
    {
      if (thread_logged[static_cast<size_t>(tid)])
      {
        --live_logged_threads;
      }
      record(EV_THREAD_END, tid);
    }
    st.finished = true;
  }

  void run()
  {
    size_t nt = plan.threads.size();
    H.status.assign(nt, OpStatus{});
    threads.resize(nt);
    spawned.assign(nt, false);
    joined.assign(nt, false);
    thread_logged.assign(nt, false);
    map_thread(0, 0);

    int nsinks = static_cast<int>(plan.get("nsinks", 1));
    sinks.resize(static_cast<size_t>(nsinks));
    sink_type.assign(static_cast<size_t>(nsinks), 0);
    sink_path.assign(static_cast<size_t>(nsinks), "");
    sink_rotating.assign(static_cast<size_t>(nsinks), 0);
    for (int i = 0; i < nsinks; ++i)
    {
      make_sink(i);
    }
    int nloggers = static_cast<int>(plan.get("nloggers", 1));
    for (int i = 0; i < nloggers; ++i)
    {
      std::string k = "logger" + std::to_string(i);
      make_logger(i, plan.get(k + "_sinks", 1), static_cast<int>(plan.get(k + "_clock", 0)), "lg" + std::to_string(i));
      slots[static_cast<size_t>(i)].generation = 1;
    }
    if (plan.get("autostart", 1))
    {
      start_backend();
    }

    thread_main(0);

    // implicit joins, so that a plan whose JOIN ops were removed by the minimiser still terminates
    for (size_t t = 1; t < nt; ++t)
    {
      if (spawned[t] && !joined[t])
      {
        joined[t] = true;
        threads[t].join();
      }
    }

    // terminal quiescence
    H.status[0].finished = false;
    H.status[0].in_op = true;
    H.status[0].op_index = -2;
    H.status[0].op_kind = OP_FLUSH;
    if (plan.get("final_flush", 1) && backend_running)
    {
      for (auto& s : slots)
      {
        if (s.valid)
        {
          record(EV_FLUSH_INVOKE, &s - slots.data());
          s.lg->flush_log();
          record(EV_FLUSH_RETURN, &s - slots.data());
          break;
        }
      }
    }
    H.status[0].op_kind = OP_STOP;
    if (plan.get("final_stop", 1) && backend_running)
    {
      record(EV_STOP_INVOKE);
      stop_backend();
      record(EV_STOP_RETURN);
    }
    snapshot_files();
    H.status[0].finished = true;
    H.status[0].in_op = false;
  }
};

template <class FO>
void run_plan_impl(Plan const& plan, History& H, std::string const& scratch_dir)
{
  static VM<FO>* vm = nullptr;
  vm = new VM<FO>(plan, H);
  vm->scratch_dir = scratch_dir;
  g_vm = vm;
  // names that quill puts into queue records (a CsvWriter's logger name is its file name, and remove_logger_blocking sends
  // the logger name to the backend) must not depend on the worker's scratch path: such files are named relative to it
  if (::chdir(scratch_dir.c_str()) != 0)
  {
    fprintf(stderr, "cannot chdir to %s\n", scratch_dir.c_str());
    _exit(3);
  }

  sim::Config cfg;
  cfg.sched_seed = static_cast<uint64_t>(plan.get("sched_seed", 1));
  cfg.policy = static_cast<int>(plan.get("policy", 0));
  cfg.den = static_cast<uint32_t>(plan.get("den", 8));
  cfg.pct_depth = static_cast<uint32_t>(plan.get("pct_depth", 2));
  cfg.pct_horizon = static_cast<uint64_t>(plan.get("pct_horizon", 20000));
  cfg.delta_ns = static_cast<uint32_t>(plan.get("delta_ns", 7));
  cfg.budget_random = static_cast<uint64_t>(plan.get("budget_random", 150000));
  cfg.budget_fair = static_cast<uint64_t>(plan.get("budget_fair", 1500000));
  cfg.spurious_cv_permille = static_cast<uint32_t>(plan.get("spurious_cv", 0));
  sim::set_abandon_handler(abandon_trampoline);
  sim::start(cfg);
  vm->run();
  sim::stop();
  RunInfoBridge rb;
  rb.completed = true;
  for (int i = 0; i < 16; ++i)
  {
    rb.faults_fired[i] = vm->faults_fired[i];
  }
  finish_child(plan, H, rb);
}
} // namespace vs
