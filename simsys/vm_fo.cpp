// vm_fo.cpp — compiled once per FrontendOptions configuration (-DFO_INDEX=k)
#include "vm.h"
#include "fo_menu.h"
#include "vm_sites.h"
#include "vm_typed.h"
#include "vm_terminal.h"

namespace vs
{
#define VS_CAT2(a, b) a##b
#define VS_CAT(a, b) VS_CAT2(a, b)
void VS_CAT(run_plan_fo, FO_INDEX)(Plan const& plan, History& H, std::string const& scratch)
{
  run_plan_impl<FOSel<FO_INDEX>>(plan, H, scratch);
}
} // namespace vs

#if FO_INDEX == 0
namespace vs
{
VMBase* g_vm = nullptr;

void abandon_trampoline(char const* reason)
{
  RunInfoBridge rb;
  rb.stuck = true;
  rb.stuck_reason = reason;
  rb.completed = false;
  if (g_vm)
  {
    for (int i = 0; i < 16; ++i)
    {
      rb.faults_fired[i] = g_vm->faults_fired[i];
    }
    finish_child(g_vm->plan, g_vm->H, rb);
  }
  _exit(3);
}

// Touch every function-local static of quill once, single-threaded, before any run is forked, so
// that __cxa_guard_acquire is never contended inside a simulated run (DESIGN.md 2.2).
void pretouch_quill()
{
  sim::clock_only_mode(true);
  (void)quill::detail::RdtscClock::RdtscTicks::instance();
  (void)quill::detail::LoggerManager::instance();
  (void)quill::detail::SinkManager::instance();
  (void)quill::detail::ThreadContextManager::instance();
  (void)quill::detail::BackendManager::instance();
  (void)quill::detail::SignalHandlerContext::instance();
  sim::clock_only_mode(false);
}
} // namespace vs
#endif
