// vm_sites.h — the generic statement sites of the SIM-SYS VM (included at the end of vm.h).
#pragma once

namespace vs
{
constexpr int N_GENERIC_SITES = 7;

template <class FO>
void VM<FO>::do_log(int tid, int opi, Op const& op)
{
  Slot* s = slot_of(op.v[0]);
  if (!s || !s->valid)
  {
    return;
  }
  Lg* lg = s->lg;
  int64_t const id = static_cast<int64_t>(tid) * 1000000 + opi;
  int site = static_cast<int>(op.v[1] % N_GENERIC_SITES);
  int level = static_cast<int>(op.v[2] < 0 ? 0 : (op.v[2] > 8 ? 8 : op.v[2]));
  uint64_t const seed = static_cast<uint64_t>(op.v[3]);
  size_t const size = static_cast<size_t>(op.v[4]);
  int64_t fb = op.v[5];
  std::string pl = payload(seed, size);
  std::string expected;
  int result = -3;
  int kind = 0;

  if (fb & FB_BEFORE_WRITE_THROW)
  {
    site = 3; // the JSON line of this site names the statement ("sid")
  }
  else if (fb & FB_FORMAT_MISMATCH)
  {
    site = 6;
  }
  else if (fb & (FB_FMT_THROW_STD | FB_FMT_THROW_INT | FB_FMT_THROW_STRUCT))
  {
    site = 5;
  }
  else if (site == 6)
  {
    site = 0;
  }
  if (fb & FB_SINK_THROW_MASK)
  {
    fault_bits[id] = fb & FB_SINK_THROW_MASK;
  }
  if (fb & FB_FLUSH_THROW)
  {
    flush_throw_armed = true;
  }
  if (fb & FB_FWRITE_FAIL)
  {
    sim::arm_fwrite_fault(nullptr, 1);
  }

  uint32_t const n32 = static_cast<uint32_t>(seed >> 7);
  double const dbl = static_cast<double>(static_cast<int64_t>(seed % 2000001) - 1000000) / 128.0;
  int64_t const i64 = static_cast<int64_t>(seed * 31) - (int64_t{1} << 40);

  switch (site)
  {
  case 0:
    expected = fmtquill::format("#{}# {}", id, pl);
    break;
  case 1:
    expected = fmtquill::format("#{}# {}|{}", id, n32, std::string_view{pl});
    break;
  case 2:
    expected = fmtquill::format("#{}# {} {:.3f} {}", id, pl.c_str(), dbl, i64);
    break;
  case 3:
    expected = fmtquill::format("#{}# {} {}", id, pl, static_cast<int>(n32 & 0xFFFF));
    break;
  case 4:
    expected = fmtquill::format("#{}# dyn {}", id, pl);
    kind = 2;
    break;
  case 5:
    expected = fmtquill::format("#{}# FD({}) {}", id, id, pl);
    break;
  default:
    expected = "[Could not format";
    break;
  }

  if (site <= 5)
  {
    expected = typed_sanitize(expected); // (a no-op unless the run configures a stricter check_printable_char)
  }
  Ev& inv = record(EV_LOG_INVOKE, id, op.v[0], level, kind);
  inv.s = expected;
  inv.s2 = std::to_string(site) + "," + std::to_string(fb);

  size_t const cap_before = thread_logged[static_cast<size_t>(tid)] ? Fe::get_thread_local_queue_capacity() : 0;
  bool const first_call = !thread_logged[static_cast<size_t>(tid)];
  sim::AllocCounters const alloc_before = sim::alloc_counters();
  int const slot_clock = s->clock;
  sim::mark_clock_read();
  UserClock::mark();
  QUILL_TRY
  {
    switch (site)
    {
    case 0:
      VS_LOG(level, result, lg, "#{}# {}", id, pl);
      break;
    case 1:
      VS_LOG(level, result, lg, "#{}# {}|{}", id, n32, std::string_view{pl});
      break;
    case 2:
      VS_LOG(level, result, lg, "#{}# {} {:.3f} {}", id, pl.c_str(), dbl, i64);
      break;
    case 3:
      VS_LOG(level, result, lg, "#{sid}# {text} {num}", id, pl, static_cast<int>(n32 & 0xFFFF));
      break;
    case 4:
    {
      quill::LogLevel const lv = static_cast<quill::LogLevel>(level);
      if (lg->should_log_statement(lv))
      {
        static constexpr quill::MacroMetadata md{__FILE__ ":" QUILL_STRINGIFY(__LINE__), "vm", "#{}# dyn {}", nullptr,
                                                 quill::LogLevel::Dynamic, quill::MacroMetadata::Event::Log};
        result = lg->template log_statement<false, true>(lv, &md, id, pl) ? 1 : 0;
      }
      else
      {
        result = -1;
      }
      break;
    }
    case 5:
    {
      int mode = (fb & FB_FMT_THROW_STD) ? 1 : ((fb & FB_FMT_THROW_INT) ? 2 : ((fb & FB_FMT_THROW_STRUCT) ? 3 : 0));
      FaultyDeferred fd{id, mode};
      VS_LOG(level, result, lg, "#{}# {} {}", id, fd, pl);
      if (mode != 0 && result == 1)
      {
        ++faults_fired[5];
      }
      break;
    }
    default:
    {
      // F4: a run-time built metadata whose format string does not match the arguments
      static quill::MacroMetadata const md_bad{"vm_sites.h:1", "vm", "#{}# {:d} {:q}", nullptr, quill::LogLevel::Error,
                                               quill::MacroMetadata::Event::Log};
      // ... or one with placeholders and no argument at all (nothing to decode: the backend must not format it with
      // whatever the previous statement left in its argument store)
      static quill::MacroMetadata const md_noargs{"vm_sites.h:2", "vm", "zero {} {}", nullptr, quill::LogLevel::Error,
                                                  quill::MacroMetadata::Event::Log};
      if (lg->template should_log_statement<quill::LogLevel::Error>())
      {
        result = (seed & 1) ? (lg->template log_statement<false, false>(quill::LogLevel::None, &md_noargs) ? 1 : 0)
                            : (lg->template log_statement<false, false>(quill::LogLevel::None, &md_bad, id, pl, pl) ? 1 : 0);
        if (result == 1)
        {
          ++faults_fired[4];
        }
      }
      else
      {
        result = -1;
      }
      break;
    }
    }
  }
  QUILL_CATCH(quill::QuillError const&) { result = -2; }

  // arguments are destroyed / overwritten right after the call (deep-copy clause of C04)
  for (auto& c : pl)
  {
    c = '!';
  }
  if (result != -1)
  {
    note_thread_logged(tid);
  }
  sim::AllocCounters const alloc_after = sim::alloc_counters();
  size_t const cap_after = result == -1 ? 0 : Fe::get_thread_local_queue_capacity();
  // (d = the first wall clock value this thread read inside the call: the timestamp a system-clock statement must carry)
  uint64_t const first_user = UserClock::first();
  uint64_t const first_sys = sim::first_clock_read();
  record(EV_LOG_RETURN, id, result, static_cast<int64_t>(cap_after), static_cast<int64_t>(slot_clock == 2 ? first_user : first_sys));
  if (result == 1 && site <= 3 && fb == 0)
  {
    // C11: allocations on the calling thread around the call (flags as for the typed sites; bits 8.. = capacity before)
    record(EV_ALLOC, id, static_cast<int64_t>(alloc_after.mallocs - alloc_before.mallocs),
           static_cast<int64_t>(alloc_after.mmaps - alloc_before.mmaps),
           (first_call ? 1 : 0) | ((cap_before != cap_after) ? 2 : 0) | 4 | (static_cast<int64_t>(cap_before) << 8));
  }
}

template <class FO>
void VM<FO>::do_bt_log(int tid, int opi, Op const& op)
{
  Slot* s = slot_of(op.v[0]);
  if (!s || !s->valid)
  {
    return;
  }
  Lg* lg = s->lg;
  int64_t const id = static_cast<int64_t>(tid) * 1000000 + opi;
  std::string pl = payload(static_cast<uint64_t>(op.v[3]), static_cast<size_t>(op.v[4]));
  if (op.v[5] & FB_SINK_THROW_MASK)
  {
    fault_bits[id] = op.v[5] & FB_SINK_THROW_MASK; // the sink throws when this statement is replayed
  }
  Ev& inv = record(EV_LOG_INVOKE, id, op.v[0], 9, 1);
  inv.s = fmtquill::format("#{}# bt {}", id, pl);
  inv.s2 = "0," + std::to_string(op.v[5]);
  int result = -1;
  QUILL_TRY
  {
    if (lg->template should_log_statement<quill::LogLevel::Backtrace>())
    {
      static constexpr quill::MacroMetadata md{__FILE__ ":" QUILL_STRINGIFY(__LINE__), "vm", "#{}# bt {}", nullptr,
                                               quill::LogLevel::Backtrace, quill::MacroMetadata::Event::Log};
      result = lg->template log_statement<false, false>(quill::LogLevel::None, &md, id, pl) ? 1 : 0;
    }
  }
  QUILL_CATCH(quill::QuillError const&) { result = -2; }
  if (result != -1)
  {
    note_thread_logged(tid);
  }
  record(EV_LOG_RETURN, id, result, 0);
}
} // namespace vs
