// vm_terminal.h — terminal events of a program (C07): exit, return from main, handled signals
#pragma once
namespace vs
{
template <class FO>
void VM<FO>::terminal(int, Op const&)
{
}
} // namespace vs
