// vm_terminal.h — terminal events of a program (C07): exit(n), handled signals raised or really faulted.
// The child writes a PRE record (what was issued and completed so far, where the files are, run statistics),
// then really exits / dies; the parent evaluates wait status and file contents (Profile::judge_parent).
#pragma once
namespace vs
{
// The real thing, not raise(): a hardware fault at an instruction of this thread. Not instrumented — in the sanitizer
// flavour UBSan would otherwise report the deliberate null store / division before the CPU does and end the child with
// its own exit code (a false `process_did_not_die_from_the_original_signal`, seen in the first thorough pass).
#if defined(__GNUC__)
__attribute__((noinline, no_sanitize("undefined"), no_sanitize_address))
#endif
inline void real_fault(int sig)
{
  switch (sig)
  {
  case SIGSEGV:
  {
    volatile int* p = nullptr;
    *p = 1;
    break;
  }
  case SIGABRT:
    ::abort();
  case SIGFPE:
  {
    volatile int zero = 0;
    volatile int r = 7 / zero;
    (void)r;
    break;
  }
  case SIGILL:
    __builtin_trap(); // ud2
  default:
    ::raise(sig);
    break;
  }
}

template <class FO>
void VM<FO>::terminal(int tid, Op const& op)
{
  // a second terminal event (e.g. the same signal hitting another thread while the first handler is still flushing):
  // the first one is the victim the parent judges; later ones only deliver their signal
  static bool pre_written = false;
  if (pre_written)
  {
    if (op.k == OP_RAISE || op.k == OP_FAULT)
    {
      ::raise(static_cast<int>(op.v[0]));
    }
    sim::park_forever();
    return;
  }
  pre_written = true;
  std::ostringstream o;
  o << "terminal " << op.k << " " << op.v[0] << " " << tid << "\n";
  for (size_t i = 0; i < sinks.size(); ++i)
  {
    if (sink_type[i] == 1)
    {
      o << (sink_rotating[i] > 0 ? "rfile " : "file ") << i << " " << sink_path[i] << "\n";
    }
  }
  // statements issued so far: id thread logger result returned
  std::map<int64_t, std::pair<Ev const*, Ev const*>> st;
  for (auto const& e : H.ev)
  {
    if (e.type == EV_LOG_INVOKE)
    {
      st[e.a].first = &e;
    }
    else if (e.type == EV_LOG_RETURN)
    {
      st[e.a].second = &e;
    }
  }
  for (auto const& kv : st)
  {
    if (!kv.second.first)
    {
      continue;
    }
    Ev const* inv = kv.second.first;
    Ev const* ret = kv.second.second;
    o << "stmt " << kv.first << " " << inv->thread << " " << inv->b << " " << (ret ? ret->b : -3) << " " << (ret ? 1 : 0) << " "
      << inv->s << "\n";
  }
  sim::Stats const& s = sim::stats();
  o << "stats " << s.steps << " " << s.switches << " " << s.preemptions << " " << s.now_ns << " " << s.hash << " " << s.stalls_fired << "\n";
  record(EV_TERMINAL, op.k, op.v[0]);
  write_pre_record(o.str());
  ++faults_fired[13];
  if (op.k == OP_EXIT || op.k == OP_RETURN)
  {
    std::exit(static_cast<int>(op.v[0]));
  }
  int sig = static_cast<int>(op.v[0]);
  if (op.k == OP_RAISE)
  {
    ::raise(sig);
  }
  else
  {
    real_fault(sig);
  }
  // a handled signal never returns control here (the process dies or exits)
  write_pre_record("survived\n");
  _exit(5);
}
} // namespace vs
