// vm_typed.h — typed call-site pool (C04, C11) and real-macro sites (C16)
#pragma once
namespace vs
{
constexpr int N_TYPED_SITES = 58;

inline std::string typed_str(Rng& r, size_t maxlen, int flavour)
{
  // flavour 0 printable, 1 may be empty, 2 embedded NUL, 3 non-printable bytes
  if (flavour == 1 && r.chance(1, 2))
  {
    return {};
  }
  size_t n = static_cast<size_t>(r.range(flavour == 1 ? 0 : 1, static_cast<int64_t>(maxlen)));
  std::string s = payload(r.next(), n);
  if (flavour == 2 && n >= 2)
  {
    s[r.below(static_cast<uint32_t>(n))] = '\0';
  }
  if (flavour == 3 && n >= 1)
  {
    for (int k = 0; k < 2; ++k)
    {
      char c = static_cast<char>(r.pick<int>({1, 7, 9, 27, 127, 200, 255, 13}));
      s[r.below(static_cast<uint32_t>(n))] = c;
    }
  }
  return s;
}

enum TypedEnum : int
{
  TE_ZERO = 0,
  TE_ONE = 1,
  TE_BIG = 1 << 20,
  TE_NEG = -7
};

inline int format_as(TypedEnum e) { return static_cast<int>(e); }

// a user ordering for string keys (callable with whatever the backend decodes the keys to)
struct ShortestFirst
{
  bool operator()(std::string_view a, std::string_view b) const { return a.size() != b.size() ? a.size() < b.size() : a > b; }
};

// deferred-format user type, trivially copyable: its formatter must run on the backend thread
struct TcDeferred
{
  int64_t a;
  double b;
  char tag[8];
};
// direct-format user type: formatted at the call site by design
struct DirectType
{
  std::string name;
  int v;
};
// deferred-format user type whose copy constructor allocates (excluded from C11 by its documented design)
struct AllocDeferred
{
  std::string s;
  std::vector<int> v;
};
} // namespace vs

template <>
struct fmtquill::formatter<vs::TcDeferred>
{
  constexpr auto parse(format_parse_context& ctx) { return ctx.begin(); }
  auto format(vs::TcDeferred const& t, format_context& ctx) const
  {
    if (vs::g_vm && sim::active())
    {
      vs::g_vm->record(vs::EV_FORMATTER_RAN, sim::self_id(), 0);
    }
    return fmtquill::format_to(ctx.out(), "TC[{} {:.4f} {}]", t.a, t.b, std::string_view{t.tag, strnlen(t.tag, sizeof(t.tag))});
  }
};
template <>
struct quill::Codec<vs::TcDeferred> : quill::DeferredFormatCodec<vs::TcDeferred>
{
};
template <>
struct fmtquill::formatter<vs::DirectType>
{
  constexpr auto parse(format_parse_context& ctx) { return ctx.begin(); }
  auto format(vs::DirectType const& t, format_context& ctx) const
  {
    if (vs::g_vm && sim::active())
    {
      vs::g_vm->record(vs::EV_FORMATTER_RAN, sim::self_id(), 1);
    }
    return fmtquill::format_to(ctx.out(), "DT<{}:{}>", t.name, t.v);
  }
};
template <>
struct quill::Codec<vs::DirectType> : quill::DirectFormatCodec<vs::DirectType>
{
};
template <>
struct fmtquill::formatter<vs::AllocDeferred>
{
  constexpr auto parse(format_parse_context& ctx) { return ctx.begin(); }
  auto format(vs::AllocDeferred const& t, format_context& ctx) const
  {
    if (vs::g_vm && sim::active())
    {
      vs::g_vm->record(vs::EV_FORMATTER_RAN, sim::self_id(), 0);
    }
    return fmtquill::format_to(ctx.out(), "AD({}|{})", t.s, t.v.size());
  }
};
template <>
struct quill::Codec<vs::AllocDeferred> : quill::DeferredFormatCodec<vs::AllocDeferred>
{
};

namespace vs
{
// One typed statement: values from the plan's argument seed, expected text = call-site formatting (+ sanitisation),
// allocation counters around the real LOG_INFO macro, then the arguments are overwritten and destroyed.
#define VS_TSITE(C11OK, FMTSTR, ...)                                                                          \
  do                                                                                                          \
  {                                                                                                           \
    c11ok = (C11OK);                                                                                          \
    suppress_formatter_events = true;                                                                         \
    expected = typed_sanitize(fmtquill::format("#{}# " FMTSTR, id, __VA_ARGS__));                             \
    suppress_formatter_events = false;                                                                        \
    begin_invoke();                                                                                           \
    sim::AllocCounters const before = sim::alloc_counters();                                                  \
    QUILL_LOG_INFO(lg, "#{}# " FMTSTR, id, __VA_ARGS__);                                                      \
    sim::AllocCounters const after = sim::alloc_counters();                                                   \
    mallocs = after.mallocs - before.mallocs;                                                                 \
    mmaps = after.mmaps - before.mmaps;                                                                       \
  } while (0)

// A statement through another macro family (LOGV_, LOGJ_, _LIMIT, _LIMIT_EVERY_N, _TAGS, runtime metadata): EXPECTED is the
// call-site formatting of what the family documents, CALL the real macro.
#define VS_MSITE(C11OK, EXPECTED, CALL)                                                                       \
  do                                                                                                          \
  {                                                                                                           \
    c11ok = (C11OK);                                                                                          \
    suppress_formatter_events = true;                                                                         \
    expected = typed_sanitize(EXPECTED);                                                                      \
    suppress_formatter_events = false;                                                                        \
    begin_invoke();                                                                                           \
    sim::AllocCounters const before = sim::alloc_counters();                                                  \
    CALL;                                                                                                     \
    sim::AllocCounters const after = sim::alloc_counters();                                                   \
    mallocs = after.mallocs - before.mallocs;                                                                 \
    mmaps = after.mmaps - before.mmaps;                                                                       \
  } while (0)

template <class FO>
void VM<FO>::do_log_typed(int tid, int opi, Op const& op)
{
  Slot* s = slot_of(op.v[0]);
  if (!s || !s->valid)
  {
    return;
  }
  Lg* lg = s->lg;
  int64_t const id = static_cast<int64_t>(tid) * 1000000 + opi;
  int const site = static_cast<int>(op.v[1] % N_TYPED_SITES);
  Rng r(static_cast<uint64_t>(op.v[3]));
  std::string expected;
  bool c11ok = true;
  uint64_t mallocs = 0, mmaps = 0;
  size_t const cap_before = thread_logged[static_cast<size_t>(tid)] ? Fe::get_thread_local_queue_capacity() : 0;
  bool const first_call = !thread_logged[static_cast<size_t>(tid)];
  auto begin_invoke = [&]()
  {
    Ev& inv = record(EV_LOG_INVOKE, id, op.v[0], 4, 3);
    inv.s = expected;
    inv.s2 = std::to_string(100 + site) + ",0";
  };
  auto& suppress_formatter_events = suppress_formatter;
  // value helpers
  auto i64 = [&]() -> int64_t
  { return r.pick<int64_t>({0, 1, -1, INT64_MAX, INT64_MIN, static_cast<int64_t>(r.next()), r.range(-1000, 1000)}); };
  auto u64 = [&]() -> uint64_t { return r.pick<uint64_t>({0ull, 1ull, UINT64_MAX, r.next(), static_cast<uint64_t>(r.below(1000))}); };
  auto dbl = [&]() -> double
  {
    return r.pick<double>({0.0, -0.0, 1.5, -2.25, 1e300, -1e-300, std::numeric_limits<double>::quiet_NaN(),
                           std::numeric_limits<double>::infinity(), -std::numeric_limits<double>::infinity(),
                           std::numeric_limits<double>::denorm_min(), std::numeric_limits<double>::max(),
                           static_cast<double>(r.range(-100000, 100000)) / 7.0});
  };
  int const sflav = static_cast<int>(r.below(4));

  switch (site)
  {
  case 0:
  {
    int8_t a = static_cast<int8_t>(i64());
    uint8_t b = static_cast<uint8_t>(u64());
    int16_t c = static_cast<int16_t>(i64());
    uint16_t d = static_cast<uint16_t>(u64());
    VS_TSITE(true, "{} {} {} {}", a, b, c, d);
    break;
  }
  case 1:
  {
    int32_t a = static_cast<int32_t>(i64());
    uint32_t b = static_cast<uint32_t>(u64());
    int64_t c = i64();
    uint64_t d = u64();
    VS_TSITE(true, "{} {:x} {:+} {:>22}", a, b, c, d);
    break;
  }
  case 2:
  {
    bool a = r.chance(1, 2);
    // printable and non-printable (control, DEL, high-bit, NUL) char values: a char alone makes the statement subject to sanitisation
    char b = r.chance(1, 2) ? static_cast<char>(r.range('!', '~')) : static_cast<char>(r.pick<int>({0, 1, 7, 9, 27, 127, 128, 200, 233, 255}));
    long long c = i64();
    unsigned long long d = u64();
    VS_TSITE(true, "{} {} {} {}", a, b, c, d);
    break;
  }
  case 3:
  {
    double a = dbl(), b = dbl();
    float c = static_cast<float>(dbl());
    VS_TSITE(true, "{} {:.3f} {}", a, b, c);
    break;
  }
  case 4:
  {
    double a = dbl();
    long double b = static_cast<long double>(dbl());
    float c = r.pick<float>({0.0f, std::numeric_limits<float>::infinity(), std::numeric_limits<float>::quiet_NaN(), 3.25f, -1e-30f});
    VS_TSITE(true, "{:e} {} {:g}", a, b, c);
    break;
  }
  case 5:
  {
    TypedEnum e = r.pick<TypedEnum>({TE_ZERO, TE_ONE, TE_BIG, TE_NEG});
    int x = static_cast<int>(i64());
    VS_TSITE(true, "{} {}", e, x);
    break;
  }
  case 6:
  {
    void const* p = r.chance(1, 3) ? nullptr : reinterpret_cast<void const*>(static_cast<uintptr_t>(r.next() >> 16));
    int x = static_cast<int>(r.below(100));
    VS_TSITE(true, "{} {}", p, x);
    break;
  }
  case 7:
  {
    std::string a = typed_str(r, 40, sflav == 2 ? 0 : sflav);
    char const* ca = a.c_str();
    VS_TSITE(true, "{}", ca);
    a.assign(a.size(), '!');
    break;
  }
  case 8:
  {
    std::string a = typed_str(r, 30, 1), b = typed_str(r, 30, 0);
    char const* ca = a.c_str();
    char* cb = b.data();
    int64_t x = i64();
    VS_TSITE(true, "[{}] {} [{}]", ca, x, cb);
    a.assign(a.size(), '!');
    b.assign(b.size(), '!');
    break;
  }
  case 9:
  {
    // null C string: call-site formatting is itself undefined (fmt throws); quill encodes it as an empty string
    char const* np = nullptr;
    int x = static_cast<int>(r.below(1000));
    c11ok = true;
    expected = fmtquill::format("#{}# <{}> {}", id, "", x);
    begin_invoke();
    sim::AllocCounters const before = sim::alloc_counters();
    QUILL_LOG_INFO(lg, "#{}# <{}> {}", id, np, x);
    sim::AllocCounters const after = sim::alloc_counters();
    mallocs = after.mallocs - before.mallocs;
    mmaps = after.mmaps - before.mmaps;
    break;
  }
  case 10:
  {
    // char arrays: terminated and unterminated (every byte used)
    char a[8];
    char b[5];
    std::string sa = payload(r.next(), r.chance(1, 2) ? 8 : static_cast<size_t>(r.range(0, 7)));
    std::memset(a, 0, sizeof(a));
    std::memcpy(a, sa.data(), sa.size());
    std::string sb = payload(r.next(), r.chance(1, 2) ? 5 : static_cast<size_t>(r.range(0, 4)));
    std::memset(b, 0, sizeof(b));
    std::memcpy(b, sb.data(), sb.size());
    c11ok = true;
    expected = typed_sanitize(fmtquill::format("#{}# {}|{}", id, sa, sb));
    begin_invoke();
    sim::AllocCounters const before = sim::alloc_counters();
    QUILL_LOG_INFO(lg, "#{}# {}|{}", id, a, b);
    sim::AllocCounters const after = sim::alloc_counters();
    mallocs = after.mallocs - before.mallocs;
    mmaps = after.mmaps - before.mmaps;
    std::memset(a, '!', sizeof(a));
    std::memset(b, '!', sizeof(b));
    break;
  }
  case 11:
  {
    std::string a = typed_str(r, 60, sflav);
    VS_TSITE(true, "{}", a);
    a.assign(a.size(), '!');
    a.clear();
    a.shrink_to_fit();
    break;
  }
  case 12:
  {
    std::string a = typed_str(r, 40, sflav), b = typed_str(r, 40, 1);
    std::string_view va{a}, vb{b};
    VS_TSITE(true, "{}/{}", va, vb);
    a.assign(a.size(), '!');
    b.assign(b.size(), '!');
    break;
  }
  case 13:
  {
    std::string a = typed_str(r, 30, sflav), b = typed_str(r, 30, 0), c = typed_str(r, 30, 1);
    int64_t x = i64();
    double y = dbl();
    VS_TSITE(true, "{} {} {} {} {}", a, x, std::string_view{b}, y, c.c_str());
    a.assign(a.size(), '!');
    b.assign(b.size(), '!');
    c.assign(c.size(), '!');
    break;
  }
  case 14:
  {
    // exactly twelve C strings: the inline capacity of the size cache
    std::string v[12];
    for (auto& e : v)
    {
      e = typed_str(r, 12, 1);
    }
    VS_TSITE(true, "{} {} {} {} {} {} {} {} {} {} {} {}", v[0].c_str(), v[1].c_str(), v[2].c_str(), v[3].c_str(), v[4].c_str(),
             v[5].c_str(), v[6].c_str(), v[7].c_str(), v[8].c_str(), v[9].c_str(), v[10].c_str(), v[11].c_str());
    for (auto& e : v)
    {
      e.assign(e.size(), '!');
    }
    break;
  }
  case 15:
  {
    // fourteen C strings: the size cache spills to the heap (outside C11's bound of twelve)
    std::string v[14];
    for (auto& e : v)
    {
      e = typed_str(r, 10, 1);
    }
    VS_TSITE(false, "{} {} {} {} {} {} {} {} {} {} {} {} {} {}", v[0].c_str(), v[1].c_str(), v[2].c_str(), v[3].c_str(),
             v[4].c_str(), v[5].c_str(), v[6].c_str(), v[7].c_str(), v[8].c_str(), v[9].c_str(), v[10].c_str(), v[11].c_str(),
             v[12].c_str(), v[13].c_str());
    for (auto& e : v)
    {
      e.assign(e.size(), '!');
    }
    break;
  }
  case 16:
  {
    std::vector<int> v(static_cast<size_t>(r.range(0, 6)));
    for (auto& e : v)
    {
      e = static_cast<int>(i64());
    }
    VS_TSITE(true, "{}", v);
    v.assign(v.size(), -1);
    v.clear();
    break;
  }
  case 17:
  {
    std::vector<std::string> v(static_cast<size_t>(r.range(0, 5)));
    for (auto& e : v)
    {
      e = typed_str(r, 14, 1);
    }
    VS_TSITE(true, "{}", v);
    for (auto& e : v)
    {
      e.assign(e.size(), '!');
    }
    v.clear();
    break;
  }
  case 18:
  {
    std::array<double, 3> a{dbl(), dbl(), dbl()};
    std::array<std::string, 2> b{typed_str(r, 10, 0), typed_str(r, 10, 1)};
    VS_TSITE(true, "{} {}", a, b);
    b[0].assign(b[0].size(), '!');
    break;
  }
  case 19:
  {
    std::deque<int64_t> d;
    std::list<uint32_t> l;
    for (int k = static_cast<int>(r.range(0, 5)); k > 0; --k)
    {
      d.push_back(i64());
      l.push_back(static_cast<uint32_t>(u64()));
    }
    VS_TSITE(true, "{} {}", d, l);
    d.clear();
    l.clear();
    break;
  }
  case 20:
  {
    std::forward_list<int> f;
    std::set<std::string> st;
    for (int k = static_cast<int>(r.range(0, 4)); k > 0; --k)
    {
      f.push_front(static_cast<int>(i64()));
      st.insert(typed_str(r, 8, 0));
    }
    VS_TSITE(true, "{} {}", f, st);
    f.clear();
    st.clear();
    break;
  }
  case 21:
  {
    std::map<std::string, int> m;
    for (int k = static_cast<int>(r.range(0, 4)); k > 0; --k)
    {
      m[typed_str(r, 8, 0)] = static_cast<int>(i64());
    }
    VS_TSITE(true, "{}", m);
    m.clear();
    break;
  }
  case 22:
  {
    std::unordered_map<int, std::string> m;
    if (r.chance(2, 3))
    {
      m[static_cast<int>(r.below(1000))] = typed_str(r, 10, 1); // at most one element: iteration order cannot matter
    }
    std::unordered_set<int64_t> us;
    if (r.chance(1, 2))
    {
      us.insert(i64());
    }
    VS_TSITE(true, "{} {}", m, us);
    m.clear();
    break;
  }
  case 23:
  {
    std::optional<int> a = r.chance(1, 2) ? std::optional<int>{static_cast<int>(i64())} : std::nullopt;
    std::optional<std::string> b = r.chance(1, 2) ? std::optional<std::string>{typed_str(r, 12, 1)} : std::nullopt;
    VS_TSITE(true, "{} {}", a, b);
    b.reset();
    break;
  }
  case 24:
  {
    std::pair<int, std::string> p{static_cast<int>(i64()), typed_str(r, 12, 1)};
    std::pair<double, uint64_t> q{dbl(), u64()};
    VS_TSITE(true, "{} {}", p, q);
    p.second.assign(p.second.size(), '!');
    break;
  }
  case 25:
  {
    std::tuple<int, std::string, double> t{static_cast<int>(i64()), typed_str(r, 12, 1), dbl()};
    std::tuple<> e{};
    VS_TSITE(true, "{} {}", t, e);
    std::get<1>(t).assign(std::get<1>(t).size(), '!');
    break;
  }
  case 26:
  {
    std::chrono::milliseconds ms{r.range(-100000, 100000)};
    std::chrono::seconds sec{r.range(0, 1000000)};
    std::chrono::nanoseconds ns{static_cast<int64_t>(r.next() >> 20)};
    VS_TSITE(true, "{} {} {}", ms, sec, ns);
    break;
  }
  case 27:
  {
    std::filesystem::path p = std::filesystem::path("/tmp") / typed_str(r, 10, 0) / (typed_str(r, 6, 0) + ".log");
    VS_TSITE(false, "{}", p); // copied through a temporary string by design
    p.clear();
    break;
  }
  case 28:
  {
    std::vector<std::vector<int>> v(static_cast<size_t>(r.range(0, 3)));
    for (auto& e : v)
    {
      e.resize(static_cast<size_t>(r.range(0, 3)));
      for (auto& x : e)
      {
        x = static_cast<int>(i64());
      }
    }
    VS_TSITE(true, "{}", v);
    v.clear();
    break;
  }
  case 29:
  {
    std::vector<std::pair<int, std::string>> v(static_cast<size_t>(r.range(0, 3)));
    for (auto& e : v)
    {
      e = {static_cast<int>(i64()), typed_str(r, 8, 1)};
    }
    std::map<int, std::vector<std::string>> m;
    if (r.chance(1, 2))
    {
      m[1] = {typed_str(r, 6, 0), typed_str(r, 6, 1)};
    }
    VS_TSITE(true, "{} {}", v, m);
    v.clear();
    m.clear();
    break;
  }
  case 30:
  {
    std::optional<std::vector<std::string>> o;
    if (r.chance(1, 2))
    {
      o = std::vector<std::string>{typed_str(r, 6, 1), typed_str(r, 6, 0)};
    }
    std::tuple<std::vector<int>, std::pair<std::string, int>> t{{1, static_cast<int>(i64())}, {typed_str(r, 6, 0), 3}};
    VS_TSITE(true, "{} {}", o, t);
    o.reset();
    break;
  }
  case 31:
  {
    TcDeferred d{i64(), dbl(), {}};
    std::string tg = payload(r.next(), static_cast<size_t>(r.range(0, 7)));
    std::memcpy(d.tag, tg.data(), tg.size());
    VS_TSITE(true, "{}", d);
    d.a = -1;
    std::memset(d.tag, '!', 7);
    break;
  }
  case 32:
  {
    TcDeferred d{i64(), dbl(), {}};
    std::string a = typed_str(r, 20, sflav);
    int const tail = static_cast<int>(i64());
    VS_TSITE(true, "{} {} {}", a, d, tail);
    a.assign(a.size(), '!');
    d.b = 0;
    break;
  }
  case 33:
  {
    DirectType d{typed_str(r, 10, 0), static_cast<int>(i64())};
    VS_TSITE(false, "{}", d); // direct-format types are formatted at the call site by design
    d.name.assign(d.name.size(), '!');
    break;
  }
  case 34:
  {
    AllocDeferred d{typed_str(r, 12, 0), std::vector<int>(static_cast<size_t>(r.range(0, 5)))};
    VS_TSITE(false, "{}", d); // its copy constructor allocates (excluded by its documented design)
    d.s.assign(d.s.size(), '!');
    d.v.clear();
    break;
  }
  case 35:
  {
    std::string a = typed_str(r, 200, sflav); // a long string: lands near buffer boundaries / forces growth
    std::vector<int> v(static_cast<size_t>(r.range(0, 20)), static_cast<int>(i64()));
    VS_TSITE(true, "{} {}", a, v);
    a.assign(a.size(), '!');
    v.clear();
    break;
  }
  case 36:
  {
    int64_t a = i64();
    std::string b = typed_str(r, 25, sflav);
    uint8_t c = static_cast<uint8_t>(u64());
    std::string d2 = typed_str(r, 25, 1);
    double e = dbl();
    VS_TSITE(true, "{:>8}|{:<30}|{:03}|{:^12}|{:10.2f}", a, b, c, d2, e);
    b.assign(b.size(), '!');
    d2.assign(d2.size(), '!');
    break;
  }
  case 37:
  {
    std::vector<double> v(static_cast<size_t>(r.range(0, 4)));
    for (auto& e : v)
    {
      e = dbl();
    }
    std::array<int, 4> a{static_cast<int>(i64()), 0, -1, 7};
    VS_TSITE(true, "{} {}", v, a);
    v.clear();
    break;
  }
  case 38:
  {
    std::string a = typed_str(r, 16, 2); // embedded NUL
    std::string_view va{a};
    int x = static_cast<int>(i64());
    VS_TSITE(true, "{}|{}|{}", a, va, x);
    a.assign(a.size(), '!');
    break;
  }
  case 39:
  {
    std::set<int> a;
    std::map<int, double> b;
    for (int k = static_cast<int>(r.range(0, 5)); k > 0; --k)
    {
      a.insert(static_cast<int>(r.range(-50, 50)));
      b[static_cast<int>(r.range(0, 9))] = dbl();
    }
    VS_TSITE(true, "{} {}", a, b);
    a.clear();
    b.clear();
    break;
  }
  case 40:
  {
    std::optional<std::pair<int, std::string>> o;
    if (r.chance(2, 3))
    {
      o = std::make_pair(static_cast<int>(i64()), typed_str(r, 10, 1));
    }
    VS_TSITE(true, "{}", o);
    o.reset();
    break;
  }
  case 41:
  {
    std::string a = typed_str(r, 10, 0);
    char const* c1 = a.c_str();
    std::string b = typed_str(r, 10, 3);
    VS_TSITE(true, "{} {} {} {}", c1, b, c1, std::string_view{b});
    a.assign(a.size(), '!');
    b.assign(b.size(), '!');
    break;
  }
  case 42:
  {
    uint64_t a = u64();
    int b = static_cast<int>(i64());
    VS_TSITE(true, "{:#x} {:#b} {:o} {:c}", a, static_cast<uint8_t>(b), static_cast<uint32_t>(b), static_cast<char>('A' + (b & 15)));
    break;
  }
  case 44:
  {
    // many string values in one statement (more than the size cache's twelve inline slots — which strings must not use)
    std::vector<std::string> v(static_cast<size_t>(r.range(13, 20)));
    for (auto& e : v)
    {
      e = typed_str(r, 6, 1);
    }
    VS_TSITE(true, "{}", v);
    for (auto& e : v)
    {
      e.assign(e.size(), '!');
    }
    v.clear();
    break;
  }
  case 45:
  {
    std::array<std::string, 10> a;
    for (auto& e : a)
    {
      e = typed_str(r, 5, 1);
    }
    std::string c1 = typed_str(r, 6, 0), c2 = typed_str(r, 6, 1), c3 = typed_str(r, 6, 0), c4 = typed_str(r, 6, 1);
    VS_TSITE(true, "{} {} {} {} {}", c1.c_str(), c2.c_str(), a, c3.c_str(), c4.c_str());
    for (auto& e : a)
    {
      e.assign(e.size(), '!');
    }
    break;
  }
  case 46:
  {
    std::string v[13];
    for (auto& e : v)
    {
      e = typed_str(r, 8, sflav == 2 ? 0 : 1);
    }
    VS_TSITE(true, "{} {} {} {} {} {} {} {} {} {} {} {} {}", v[0], v[1], std::string_view{v[2]}, v[3], v[4], std::string_view{v[5]}, v[6],
             v[7], v[8], std::string_view{v[9]}, v[10], v[11], v[12]);
    for (auto& e : v)
    {
      e.assign(e.size(), '!');
    }
    break;
  }
  // ---- other macro families (the id travels as the value "#<id>#" of a variable called sid where the family builds the
  //      format string from the variable names)
  case 47:
  {
    std::string sid = "#" + std::to_string(id) + "#";
    int64_t a = i64();
    std::string str = typed_str(r, 24, sflav);
    std::string_view sv{str};
    VS_MSITE(true, fmtquill::format("vmsg [sid: {}, a: {}, sv: {}]", sid, a, sv), QUILL_LOGV_INFO(lg, "vmsg", sid, a, sv));
    str.assign(str.size(), '!');
    sid.assign(sid.size(), '!');
    break;
  }
  case 48:
  {
    std::string sid = "#" + std::to_string(id) + "#";
    int64_t a = i64();
    std::string str = typed_str(r, 24, 0);
    std::string_view sv{str};
    VS_MSITE(true, fmtquill::format("jmsg {}, {}, {}", sid, a, sv), QUILL_LOGJ_INFO(lg, "jmsg", sid, a, sv));
    str.assign(str.size(), '!');
    sid.assign(sid.size(), '!');
    break;
  }
  case 49:
  {
    // rate limited with a zero interval: every call logs, with the occurrence count appended
    double a = dbl();
    VS_MSITE(true, fmtquill::format("#{}# lim {} (1x)", id, a),
             QUILL_LOG_INFO_LIMIT(std::chrono::nanoseconds{0}, lg, "#{}# lim {}", id, a));
    break;
  }
  case 50:
  {
    // every third call of this thread at this site logs (the macro keeps thread-local counters; mirrored here)
    thread_local uint64_t call_count = 0, next_log_at = 0;
    bool const counted = lg->template should_log_statement<quill::LogLevel::Info>();
    bool const will = counted && call_count == next_log_at;
    if (will)
    {
      next_log_at += 3;
    }
    if (counted)
    {
      ++call_count;
    }
    uint64_t a = u64();
    if (will)
    {
      c11ok = true;
      expected = fmtquill::format("#{}# nth {}", id, a);
      begin_invoke();
    }
    // (one expansion only: the macro's counters belong to the source location)
    sim::AllocCounters const before = sim::alloc_counters();
    QUILL_LOG_INFO_LIMIT_EVERY_N(3, lg, "#{}# nth {}", id, a);
    sim::AllocCounters const after = sim::alloc_counters();
    if (!will)
    {
      // it must have stayed silent: a statement written now carries an id the history does not know
      return;
    }
    mallocs = after.mallocs - before.mallocs;
    mmaps = after.mmaps - before.mmaps;
    break;
  }
  case 51:
  {
    std::string str = typed_str(r, 24, sflav);
    VS_MSITE(true, fmtquill::format("#{}# tag {}", id, str), QUILL_LOG_INFO_TAGS(lg, QUILL_TAGS("vt1", "vt2"), "#{}# tag {}", id, str));
    str.assign(str.size(), '!');
    break;
  }
  case 52:
  {
    // source location supplied at run time: file, line and function travel as extra arguments behind a separator
    std::string str = typed_str(r, 24, 0);
    char file[] = "rt_file.cpp";
    char func[] = "rt_function";
    int a = static_cast<int>(i64());
    VS_MSITE(true, fmtquill::format("#{}# rtm {} {}", id, str, a),
             QUILL_LOG_RUNTIME_METADATA(lg, quill::LogLevel::Info, file, 77, func, "#{}# rtm {} {}", id, str, a));
    str.assign(str.size(), '!');
    std::memset(file, '!', sizeof(file) - 1);
    std::memset(func, '!', sizeof(func) - 1);
    break;
  }
  case 53:
  {
    std::string sid = "#" + std::to_string(id) + "#";
    int a = static_cast<int>(i64());
    VS_MSITE(true, fmtquill::format("jl {}, {} (1x)", sid, a), QUILL_LOGJ_INFO_LIMIT(std::chrono::nanoseconds{0}, lg, "jl", sid, a));
    sid.assign(sid.size(), '!');
    break;
  }
  case 54:
  {
    std::string sid = "#" + std::to_string(id) + "#";
    double a = dbl();
    VS_MSITE(true, fmtquill::format("dv [sid: {}, a: {}]", sid, a), QUILL_LOGV_DYNAMIC(lg, quill::LogLevel::Info, "dv", sid, a));
    sid.assign(sid.size(), '!');
    break;
  }
  case 57:
  {
    // large fixed-width char arrays (wire-format fields): completely filled, i.e. unterminated, or terminated early
    char a[24];
    char b[64];
    std::string sa = payload(r.next(), r.chance(2, 3) ? sizeof(a) : static_cast<size_t>(r.range(0, 23)));
    std::string sb = payload(r.next(), r.chance(2, 3) ? sizeof(b) : static_cast<size_t>(r.range(0, 63)));
    std::memset(a, 0, sizeof(a));
    std::memcpy(a, sa.data(), sa.size());
    std::memset(b, 0, sizeof(b));
    std::memcpy(b, sb.data(), sb.size());
    c11ok = true;
    expected = typed_sanitize(fmtquill::format("#{}# {}|{}", id, sa, sb));
    begin_invoke();
    sim::AllocCounters const before = sim::alloc_counters();
    QUILL_LOG_INFO(lg, "#{}# {}|{}", id, a, b);
    sim::AllocCounters const after = sim::alloc_counters();
    mallocs = after.mallocs - before.mallocs;
    mmaps = after.mmaps - before.mmaps;
    std::memset(a, '!', sizeof(a));
    std::memset(b, '!', sizeof(b));
    break;
  }
  case 55:
  {
    // ordered containers with a user-chosen ordering: the backend rebuilds them and must print them in that order
    std::set<std::string, std::greater<>> st;
    std::multiset<int, std::greater<int>> ms;
    for (int k = static_cast<int>(r.range(0, 5)); k > 0; --k)
    {
      st.insert(typed_str(r, 8, 0));
      ms.insert(static_cast<int>(r.range(-5, 5)));
    }
    VS_TSITE(true, "{} {}", st, ms);
    st.clear();
    ms.clear();
    break;
  }
  case 56:
  {
    std::map<std::string, int, std::greater<>> m;
    std::multiset<std::string, ShortestFirst> ms;
    for (int k = static_cast<int>(r.range(0, 5)); k > 0; --k)
    {
      m[typed_str(r, 8, 0)] = static_cast<int>(i64());
      ms.insert(typed_str(r, 6, 0));
    }
    VS_TSITE(true, "{} {}", m, ms);
    m.clear();
    ms.clear();
    break;
  }
  default:
  {
    std::vector<std::string> v(static_cast<size_t>(r.range(1, 4)));
    for (auto& e : v)
    {
      e = typed_str(r, 10, 3);
    }
    std::string tail = typed_str(r, 10, 1);
    VS_TSITE(true, "{} {}", v, tail.c_str());
    v.clear();
    tail.assign(tail.size(), '!');
    break;
  }
  }
  note_thread_logged(tid);
  size_t const cap_after = Fe::get_thread_local_queue_capacity();
  record(EV_LOG_RETURN, id, 1, static_cast<int64_t>(cap_after));
  // C11: allocations on the calling thread around the call (first call of a thread and capacity changes are excused)
  record(EV_ALLOC, id, static_cast<int64_t>(mallocs), static_cast<int64_t>(mmaps),
         (first_call ? 1 : 0) | ((cap_before != cap_after) ? 2 : 0) | (c11ok ? 4 : 0) | (static_cast<int64_t>(cap_before) << 8));
}

// Real LOG_* macros (C16): the level check and the argument evaluation are the library's own.
// The first argument carries a side effect, so the history shows whether arguments were evaluated.
template <class FO>
void VM<FO>::do_log_macro(int tid, int opi, Op const& op)
{
  Slot* s = slot_of(op.v[0]);
  if (!s || !s->valid)
  {
    return;
  }
  Lg* lg = s->lg;
  int64_t const id = static_cast<int64_t>(tid) * 1000000 + opi;
  int const level = static_cast<int>(op.v[2] < 0 ? 0 : (op.v[2] > 8 ? 8 : op.v[2]));
  bool const dynamic = op.v[1] == 1;
  bool const named = op.v[1] == 2;
  bool const backtrace = op.v[1] == 3;
  std::string pl = payload(static_cast<uint64_t>(op.v[3]), static_cast<size_t>(op.v[4]));
  bool evaluated = false;
  auto ev = [&](int64_t x) -> int64_t
  {
    evaluated = true;
    this->record(EV_ARG_EVAL, id);
    return x;
  };
  Ev& inv = record(EV_LOG_INVOKE, id, op.v[0], backtrace ? 9 : level, dynamic ? 5 : 4);
  inv.s = fmtquill::format("#{}# mac {}", id, pl);
  inv.s2 = std::string(named ? "3" : "0") + ",0";
  if (named)
  {
    inv.s2 = "30,0"; // macro site with named arguments (mid, mtext)
  }
  if (backtrace)
  {
    QUILL_LOG_BACKTRACE(lg, "#{}# mac {}", ev(id), pl);
  }
  else if (dynamic)
  {
    QUILL_LOG_DYNAMIC(lg, static_cast<quill::LogLevel>(level), "#{}# mac {}", ev(id), pl);
  }
  else if (named)
  {
    switch (level)
    {
    case 0: QUILL_LOG_TRACE_L3(lg, "#{mid}# mac {mtext}", ev(id), pl); break;
    case 1: QUILL_LOG_TRACE_L2(lg, "#{mid}# mac {mtext}", ev(id), pl); break;
    case 2: QUILL_LOG_TRACE_L1(lg, "#{mid}# mac {mtext}", ev(id), pl); break;
    case 3: QUILL_LOG_DEBUG(lg, "#{mid}# mac {mtext}", ev(id), pl); break;
    case 4: QUILL_LOG_INFO(lg, "#{mid}# mac {mtext}", ev(id), pl); break;
    case 5: QUILL_LOG_NOTICE(lg, "#{mid}# mac {mtext}", ev(id), pl); break;
    case 6: QUILL_LOG_WARNING(lg, "#{mid}# mac {mtext}", ev(id), pl); break;
    case 7: QUILL_LOG_ERROR(lg, "#{mid}# mac {mtext}", ev(id), pl); break;
    default: QUILL_LOG_CRITICAL(lg, "#{mid}# mac {mtext}", ev(id), pl); break;
    }
  }
  else
  {
    switch (level)
    {
    case 0: QUILL_LOG_TRACE_L3(lg, "#{}# mac {}", ev(id), pl); break;
    case 1: QUILL_LOG_TRACE_L2(lg, "#{}# mac {}", ev(id), pl); break;
    case 2: QUILL_LOG_TRACE_L1(lg, "#{}# mac {}", ev(id), pl); break;
    case 3: QUILL_LOG_DEBUG(lg, "#{}# mac {}", ev(id), pl); break;
    case 4: QUILL_LOG_INFO(lg, "#{}# mac {}", ev(id), pl); break;
    case 5: QUILL_LOG_NOTICE(lg, "#{}# mac {}", ev(id), pl); break;
    case 6: QUILL_LOG_WARNING(lg, "#{}# mac {}", ev(id), pl); break;
    case 7: QUILL_LOG_ERROR(lg, "#{}# mac {}", ev(id), pl); break;
    default: QUILL_LOG_CRITICAL(lg, "#{}# mac {}", ev(id), pl); break;
    }
  }
  for (auto& c : pl)
  {
    c = '?';
  }
  if (evaluated)
  {
    note_thread_logged(tid);
  }
  record(EV_LOG_RETURN, id, evaluated ? 1 : -1, 0);
}
} // namespace vs
