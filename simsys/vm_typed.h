// vm_typed.h — typed call-site pool (C04, C11) and real-macro sites (C16)
#pragma once
namespace vs
{
template <class FO>
void VM<FO>::do_log_typed(int, int, Op const&)
{
}
template <class FO>
void VM<FO>::do_log_macro(int, int, Op const&)
{
}
} // namespace vs
