// vm_typed.h — typed call-site pool (C04, C11) and real-macro sites (C16)
#pragma once
namespace vs
{
template <class FO>
void VM<FO>::do_log_typed(int, int, Op const&)
{
}
// Real LOG_* macros (C16): the level check and the argument evaluation are the library's own.
// The first argument carries a side effect, so the history shows whether arguments were evaluated.
template <class FO>
void VM<FO>::do_log_macro(int tid, int opi, Op const& op)
{
  Slot* s = slot_of(op.v[0]);
  if (!s || !s->valid)
  {
    return;
  }
  Lg* lg = s->lg;
  int64_t const id = static_cast<int64_t>(tid) * 1000000 + opi;
  int const level = static_cast<int>(op.v[2] < 0 ? 0 : (op.v[2] > 8 ? 8 : op.v[2]));
  bool const dynamic = op.v[1] == 1;
  bool const named = op.v[1] == 2;
  std::string pl = payload(static_cast<uint64_t>(op.v[3]), static_cast<size_t>(op.v[4]));
  bool evaluated = false;
  auto ev = [&](int64_t x) -> int64_t
  {
    evaluated = true;
    this->record(EV_ARG_EVAL, id);
    return x;
  };
  Ev& inv = record(EV_LOG_INVOKE, id, op.v[0], level, dynamic ? 5 : 4);
  inv.s = fmtquill::format("#{}# mac {}", id, pl);
  inv.s2 = std::string(named ? "3" : "0") + ",0";
  if (named)
  {
    inv.s2 = "30,0"; // macro site with named arguments (mid, mtext)
  }
  if (dynamic)
  {
    QUILL_LOG_DYNAMIC(lg, static_cast<quill::LogLevel>(level), "#{}# mac {}", ev(id), pl);
  }
  else if (named)
  {
    switch (level)
    {
    case 0: QUILL_LOG_TRACE_L3(lg, "#{mid}# mac {mtext}", ev(id), pl); break;
    case 1: QUILL_LOG_TRACE_L2(lg, "#{mid}# mac {mtext}", ev(id), pl); break;
    case 2: QUILL_LOG_TRACE_L1(lg, "#{mid}# mac {mtext}", ev(id), pl); break;
    case 3: QUILL_LOG_DEBUG(lg, "#{mid}# mac {mtext}", ev(id), pl); break;
    case 4: QUILL_LOG_INFO(lg, "#{mid}# mac {mtext}", ev(id), pl); break;
    case 5: QUILL_LOG_NOTICE(lg, "#{mid}# mac {mtext}", ev(id), pl); break;
    case 6: QUILL_LOG_WARNING(lg, "#{mid}# mac {mtext}", ev(id), pl); break;
    case 7: QUILL_LOG_ERROR(lg, "#{mid}# mac {mtext}", ev(id), pl); break;
    default: QUILL_LOG_CRITICAL(lg, "#{mid}# mac {mtext}", ev(id), pl); break;
    }
  }
  else
  {
    switch (level)
    {
    case 0: QUILL_LOG_TRACE_L3(lg, "#{}# mac {}", ev(id), pl); break;
    case 1: QUILL_LOG_TRACE_L2(lg, "#{}# mac {}", ev(id), pl); break;
    case 2: QUILL_LOG_TRACE_L1(lg, "#{}# mac {}", ev(id), pl); break;
    case 3: QUILL_LOG_DEBUG(lg, "#{}# mac {}", ev(id), pl); break;
    case 4: QUILL_LOG_INFO(lg, "#{}# mac {}", ev(id), pl); break;
    case 5: QUILL_LOG_NOTICE(lg, "#{}# mac {}", ev(id), pl); break;
    case 6: QUILL_LOG_WARNING(lg, "#{}# mac {}", ev(id), pl); break;
    case 7: QUILL_LOG_ERROR(lg, "#{}# mac {}", ev(id), pl); break;
    default: QUILL_LOG_CRITICAL(lg, "#{}# mac {}", ev(id), pl); break;
    }
  }
  for (auto& c : pl)
  {
    c = '?';
  }
  if (evaluated)
  {
    note_thread_logged(tid);
  }
  record(EV_LOG_RETURN, id, evaluated ? 1 : -1, 0);
}
} // namespace vs
