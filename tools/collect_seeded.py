#!/usr/bin/env python3
"""collect_seeded.py — copy the seeded changes that were confirmed (tools/verify_seeded.sh results under /tmp/seeded_verify)
into /verif/seeded/<id>/ (patch.diff, the demonstration, meta.json with what it breaks, what it needs, what was run, and
which check catches it with which violation class)."""
import json, os, shutil, glob, sys

CAUGHT = {
 # id: (check that catches it, violation class(es) seen in the quick tier, note)
 "C03-1": ("C03", "lost", ""),
 "C03-2": ("C03", "lost", "same mutation as the hand-made sensitivity patch of DESIGN.md 2.6"),
 "C05-1": ("C05", "timestamp_order_inversion", "patch ported to the fixed tree (the original touched the lines of fix b344e2f); original kept as patch_original.diff"),
 "C05-2": ("C05", "timestamp_order_inversion", ""),
 "C06-1": ("C06", "flush_returned_before_other_threads_statement_written / _in_file / flush_returned_before_sink_flushed", ""),
 "C06-2": ("C10", "flush_returned_with_a_healthy_sink_unflushed", "needs a sink whose flush throws: caught by the C10 check (fault injection), not by C06 whose plans inject no sink faults; the C10 oracle was extended for it. In my confirmation run the wall-clock timing test stopwatch_tsc failed under machine load (unrelated to the change; the author's run passed 183/183)"),
 "C10-1": ("C10", "backend_makes_no_progress_after_fault", ""),
 "C10-2": ("C10", "wrong_attribution (named arguments of a failed statement delivered with a later statement)", "caught after the attribution oracle (line / thread id / logger / named arguments) was added to the delivery check"),
 "C20-1": ("C20", "thread_contexts_not_reclaimed", ""),
 "C20-2": ("C20", "delivery:lost (also C03: lost)", "missed at first; caught after C20 plans got shrink+log+exit in short-lived threads and runs without final flush, and C03 got shrink ops and runs without final flush"),
 "C08-1": ("C08", "reported_drop_count_mismatch direction=under_reported", ""),
 "C08-2": ("C08", "crash:Aborted (quill's own size-accounting assert)", "missed at first; caught after C08 bursts used C-string / string_view / named-argument call sites"),
 "C09-1": ("C09", "blocked_log_call_never_resumes, fitting_statement_dropped_on_empty_queue (SIM-SYS level)", ""),
 "C09-2": ("C09", "blocked_log_call_never_resumes", ""),
 "C16-1": ("C16", "wrong_attribution (reported level 10 instead of the dynamic level)", "in my confirmation run the wall-clock timing test stopwatch_tsc failed under machine load (unrelated to the change; the author's run passed 183/183)"),
 "C16-2": ("C16", "wrong_attribution (formatted line of another sink's override pattern)", ""),
 "C17-1": ("C17", "blocking_removal_never_returns, crash:Segmentation_fault", ""),
 "C17-2": ("C17", "sink_lookup_not_idempotent", "missed at first; caught after sink lookups by name (OP_GET_SINK) and up to 4 sinks were added to C17 plans"),
 "C18-1": ("C18", "backtrace_replay_differs_from_model", ""),
 "C18-2": ("C18", "backtrace_replay_differs_from_model", "missed at first; caught after dynamic-level statements were added to C18 histories"),
 "C01-1": ("C01", "reservation_granted_without_released_space, reservation_larger_than_capacity_granted, data_race_overwrite_of_bytes_still_being_read", ""),
 "C01-2": ("C01", "data_race_read_of_unpublished_bytes", "a pure memory-order weakening: invisible on x86, caught by the happens-before race detector under the operational C++11 model"),
 "C02-1": ("C02", "record_lost_duplicated_reordered_or_torn, committed_record_never_delivered", ""),
 "C02-2": ("C02", "allocated_beyond_the_maximum_capacity", "missed at first; caught after maxima that are not power-of-two multiples of the initial capacity were added to C02 cases"),
 "C13-1": ("C13", "rendered_time_differs_from_strftime", ""),
 "C13-2": ("C13", "rendered_time_differs_from_strftime", ""),
 "C14-1": ("C14", "file_exceeds_size_limit active_file=1", ""),
 "C14-2": ("C14", "foreign_file_touched", ""),
 "C04-1": ("C04", "crash:Aborted (quill's size / length asserts), crash:Segmentation_fault (also C08: crash:Aborted)", "missed by C04 at first (caught by C08 only); caught after C04 plans also ran on dropping queues"),
 "C04-2": ("C04", "message_differs_from_call_site_formatting typed_site=102", "missed at first; caught after the char call site produced non-printable values"),
 "C07-1": ("C07", "completed_statement_missing_after_exit, statement_missing_after_stop", ""),
 # ---- wave 5 (ids -3 / -4): a second pair per property from fresh sub-agents
 "C03-3": ("C03", "lost", "(same mechanism as C03-1, other wording)"),
 "C03-4": ("C03", "lost", "(same mechanism as C20-2)"),
 "C05-3": ("C05", "timestamp_order_inversion", ""),
 "C05-4": ("C05", "timestamp_order_inversion", "TSC-clock loggers bypass the grace-period hold-back: needs a TSC logger and a thread stalled between reading the TSC and enqueuing"),
 "C06-3": ("C06", "flush_returned_before_other_threads_statement_written / _in_file, flush_returned_before_sink_flushed", ""),
 "C06-4": ("C10", "flush_returned_with_a_healthy_sink_unflushed", "(same mechanism as C06-2: needs a sink whose flush throws, caught by the C10 check)"),
 "C07-4": ("C07", "completed_statement_missing_after_exit, statement_missing_after_stop", ""),
 "C10-3": ("C10", "flush_returned_with_a_healthy_sink_unflushed", ""),
 "C10-4": ("C10", "wrong_attribution", ""),
 "C17-3": ("C17", "blocking_removal_never_returns", ""),
 "C17-4": ("C17", "lookup_not_idempotent", "missed at first; caught after C17 plans let several threads create the same not yet existing logger at the same time"),
 "C09-3": ("C09", "blocked_log_call_never_resumes, fitting_statement_dropped_on_empty_queue (SIM-SYS level)", ""),
 "C09-4": ("C09", "reservation_refused_although_queue_empty_and_consumer_idle (queue level), blocked_log_call_never_resumes", ""),
 "C16-3": ("C16", "wrong_attribution", "(same mechanism as C16-1)"),
 "C16-4": ("C16", "wrong_attribution", "(same mechanism as C16-2)"),
 "C20-3": ("C20", "thread_contexts_not_reclaimed", "(same mechanism as C20-1)"),
 "C20-4": ("C20", "delivery:lost", "(same mechanism as C20-2)"),
 "C18-3": ("C18", "backtrace_replay_differs_from_model", ""),
 "C18-4": ("C18", "backtrace_replay_differs_from_model", "missed at first; caught after C18 histories re-initialised with the same capacity while the ring holds statements"),
 "C04-3": ("C04", "crash:Aborted (quill's size asserts), crash:Segmentation_fault, message_differs_from_call_site_formatting", "(same mechanism as C04-1)"),
 "C04-4": ("C04", "message_differs_from_call_site_formatting", "missed at first; caught after C04 / C11 runs varied BackendOptions::check_printable_char (default, stricter user callback, none)"),
 "C08-3": ("C08", "reported_drop_count_mismatch direction=under_reported", "(same mechanism as C08-1)"),
 "C08-4": ("C08", "crash:Aborted (quill's size assert); also C04", "(same mechanism as C04-1)"),
 "C15-3": ("C15", "statement_appended_to_the_file_open_before_a_rotation_point, statements_separated_without_a_rotation_point", ""),
 "C15-4": ("C15", "statement_appended_to_the_file_open_before_a_rotation_point, statements_separated_without_a_rotation_point", ""),
 "C14-3": ("C14", "file_exceeds_size_limit active_file=1", "(same mechanism as C14-1)"),
 "C14-4": ("C14", "foreign_file_touched", ""),
 "C13-3": ("C13", "rendered_time_differs_from_strftime", "(same mechanism as C13-1)"),
 "C13-4": ("C13", "rendered_time_differs_from_strftime", "missed at first; caught after the pattern generator got the remaining plain strftime conversions (%P %G %g %U %V %W %w %x)"),
 "C02-3": ("C02", "empty_reported_although_committed_records_are_outstanding (also C03: lost)", "missed by C02 at first (caught by C03 only); caught after the queue-level consumer asked empty() the way the backend does before it stops draining"),
 "C02-4": ("C02", "allocated_beyond_the_maximum_capacity", "(same mechanism as C02-2)"),
 "C11-3": ("C11", "queue_grew_for_a_statement_that_fitted (also C09: fitting_statement_dropped_on_empty_queue)", "missed by C11 at first (caught by C09 only): growth of the queue was always excused; caught after statements filling a drained queue exactly were added and growth is excused only when it can have been necessary"),
 "C11-4": ("C11", "crash:Aborted (quill's ScopedThreadContext assert: the statement after preallocate() creates a second context)", ""),
 "C01-3": ("C01", "reservation_granted_without_released_space, reservation_larger_than_capacity_granted, data_race_overwrite_of_bytes_still_being_read", "needs 8/16-bit position counters carried through the wrap with unread bytes"),
 "C01-4": ("C01", "data_race_overwrite_of_bytes_still_being_read", "a pure memory-order weakening (release -> relaxed on the drained-queue publish): invisible on x86"),
 # ---- wave 6 (ids -5 / -6 / -7): three per property, at most one in the property's first anchor file
 "C16-5": ("C16", "accepted_or_arguments_evaluated_below_logger_level", "missed at first; caught after C16 plans got logger level None and LOG_BACKTRACE statements (level Backtrace sits between Critical and None)"),
 "C16-6": ("C16", "wrong_attribution", "(same mechanism as C16-2)"),
 "C16-7": ("C16", "delivered_to_a_sink_whose_threshold_or_filter_rejects_it", ""),
 "C06-5": ("C06", "delivery:lost, flush_returned_before_other_threads_statement_in_file, crash:Segmentation_fault", "(same mechanism as C20-2)"),
 "C06-6": ("C06", "flush_returned_before_other_threads_statement_in_file / flush_returned_before_own_statement_in_file", "missed at first; caught after file sinks were also created with FileEventNotifier callbacks (before_write handing the statement through)"),
 "C06-7": ("C06", "flush_never_returns (also C08: control_request_never_returns)", "caught by C06 in 1 of 24000 runs at first (robustly by C08); C06 plans now flush with a full dropping queue: 701 runs"),
 "C10-5": ("C10", "wrong_attribution", "(same mechanism as C10-2)"),
 "C10-6": ("C10", "statements_missing_from_file", "missed at first; caught after C10 got a JsonFileSink whose before_write callback rejects chosen statements (fwrite failures alone do not expose it: the residue is then a complete line)"),
 "C10-7": ("C10", "crash:Segmentation_fault, fault_not_reported, garbled_line_in_file", "missed at first; caught after the format-mismatch site got a variant with placeholders and no arguments"),
 "C03-5": ("C03", "lost", "(same mechanism as C20-2)"),
 "C03-6": ("C03", "lost (also C07: completed_statement_missing_after_exit)", "(same mechanism as C07-1)"),
 "C03-7": ("C03", "statement_discarded_by_a_blocking_queue", "missed at first (a false return of a log call was simply treated as 'not accepted'); the C03 judge now demands that a blocking queue never returns false"),
 "C08-5": ("C08", "crash:Aborted (quill's size assert)", "(same mechanism as C04-1)"),
 "C08-6": ("C08", "accepted_but_not_delivered", "(same mechanism as C20-2)"),
 "C08-7": ("C08", "reported_drop_count_mismatch direction=over_reported", ""),
 "C17-5": ("C17", "blocking_removal_never_returns, crash:Segmentation_fault", "(same idea as C17-1 / C17-3, in BackendWorker)"),
 "C17-6": ("C17", "sink_lookup_not_idempotent", "missed at first; caught after a sink-name history through the registry was added (reference kept past a blocking removal, dropped, name created again, looked up)"),
 "C17-7": ("C17", "csv_file_differs_after_the_writer_was_destroyed, crash:Aborted (quill's valid-logger assert)", "missed at first; caught after CsvWriter scopes on a user-supplied sink that the user keeps referencing were added (re-created at once under the same name)"),
 "C18-5": ("C18", "backtrace_replay_differs_from_model, backtrace_flush_replayed_wrong_number_of_statements", "(same mechanism as C18-1)"),
 "C18-6": ("C18", "backtrace_replay_differs_from_model", "(same mechanism as C18-2 / C18-3)"),
 "C18-7": ("C18", "backtrace_replay_differs_from_model", "missed at first; caught after WARNING / ERROR / CRITICAL statements were logged while the flush level is None (also after a re-initialisation from another level)"),
 "C09-5": ("C09", "reservation_refused_although_queue_empty_and_consumer_idle, blocked_log_call_never_resumes", "(same mechanism as C09-4)"),
 "C09-6": ("C09", "blocked_log_call_never_resumes, fitting_statement_dropped_on_empty_queue", "(a variant of C09-3)"),
 "C09-7": ("C09", "reservation_refused_although_queue_empty_and_consumer_idle, blocked_log_call_never_resumes", ""),
 "C05-5": ("C05", "delivery:lost, timestamp_order_inversion", "(same mechanism as C20-2)"),
 "C05-6": ("C05", "timestamp_order_inversion", ""),
 "C05-7": ("C05", "timestamp_is_not_the_clock_value_read_at_the_start_of_the_call", "missed at first (the judge only demanded a timestamp from within the call); caught after a seam recorded the first wall clock value a thread reads inside a log call, which a system-clock statement must carry exactly — also when the call then waits for room"),
 "C20-5": ("C20", "delivery:lost", "(same mechanism as C20-2)"),
 "C20-6": ("C20", "thread_contexts_not_reclaimed", "(same mechanism as C20-1)"),
 "C20-7": ("C20", "shrink_did_not_take_effect", "missed at first; caught after C20 also ran on UnboundedDropping frontends"),
 "C07-5": ("C07", "completed_statement_missing_after_exit, statement_missing_after_stop", "(same mechanism as C20-2, reached through the exit drain)"),
 "C07-6": ("C07", "handler_notice_missing, statement_of_signalled_thread_missing, wrong_exit_status", "(same mechanism as C07-2)"),
 "C07-7": ("C07", "completed_statement_missing_after_exit, statement_missing_after_stop", "(same mechanism as C03-1)"),
 "C04-5": ("C04", "message_differs_from_call_site_formatting typed_site=102", "(same mechanism as C04-2)"),
 "C04-6": ("C04", "message_differs_from_call_site_formatting typed_site=155/156", "missed at first; caught after call sites with ordered containers under user-chosen orderings (std::greater<>, a user comparator) were added"),
 "C04-7": ("C04", "crash:Aborted (quill's size asserts), crash:Bus_error", "(same mechanism as C04-1)"),
 "C15-5": ("C15", "statements_separated_without_a_rotation_point, statement_appended_to_the_file_open_before_a_rotation_point", "(same mechanism as C15-4)"),
 "C15-6": ("C15", "statement_appended_to_the_file_open_before_a_rotation_point, file_exceeds_size_limit", "missed at first; caught after the rotation cases varied the fsync settings (enabled, with an interval that never elapses within a case)"),
 "C15-7": ("C15", "statement_appended_to_the_file_open_before_a_rotation_point, statements_separated_without_a_rotation_point (daily, GMT sink in a zone on DST)", ""),
 "C13-5": ("C13", "rendered_time_differs_from_strftime, crash", "(same mechanism as C13-1 / C13-3)"),
 "C13-6": ("C13", "rendered_time_differs_from_strftime", ""),
 "C13-7": ("C13", "rendered_time_differs_from_strftime", ""),
 "C14-5": ("C14", "statement_lost after_append_restart=1 naming=index", "missed at first; caught after cases in which the active file is taken away between two runs (rotated files stay) were added"),
 "C14-6": ("C14", "statement_lost after_append_restart=0 naming=index", "missed at first; caught after an extension-less file name inside a dotted directory was added (index naming, one run)"),
 "C11-5": ("C11", "queue_grew_for_a_statement_that_fitted", "(same mechanism as C11-3)"),
 "C11-6": ("C11", "steady_state_log_call_allocated", ""),
 "C11-7": ("C11", "steady_state_log_call_allocated typed_site=157", "missed at first; caught after a call site with large fixed-width char arrays (unterminated or not) was added"),
 "C01-5": ("C01", "reservation_granted_without_released_space, data_race_overwrite_of_bytes_still_being_read", "(same mechanism as C01-3)"),
 "C01-6": ("C01", "capacity_is_not_the_next_power_of_two_of_the_request", "missed at first (and arguably outside 'every power-of-two capacity'); caught after the queue constructor was also asked for capacities that are not powers of two"),
 "C01-7": ("C16", "crash:Segmentation_fault (also C03: crash:Aborted)", "a Logger.h change (one byte too few reserved for dynamic-level statements): invisible to the queue-level C01 check by construction; the system-level checks that log dynamic-level statements into small queues crash"),
 "C02-5": ("C02", "empty_reported_although_committed_records_are_outstanding", "(same mechanism as C02-3)"),
 "C02-6": ("C02", "record_bytes_corrupted, record_lost_duplicated_reordered_or_torn, data_race_*", ""),
 "C02-7": ("C08", "crash:Aborted (std::terminate: QuillError through a noexcept function)", "a Logger.h change: invisible to the queue-level C02 check by construction; caught by the system-level checks that log records larger than the maximum (C08)"),
 # ---- wave 7 (ids -8 / -9 / -10; six properties; at least two of three need a non-default configuration or a rarely used API)
 "C06-8": ("C06", "flush_returned_before_other_threads_statement_in_file / flush_returned_before_own_statement_in_file", "(same mechanism as C06-6)"),
 "C06-9": ("C06", "flush_returned_before_other_threads_statement_written / _in_file", "(same mechanism as C06-3)"),
 "C06-10": ("C06", "flush_returned_before_other_threads_statement_in_file / flush_returned_before_own_statement_in_file", "(reintroduces what fix f7d567d repaired)"),
 "C10-8": ("C10", "statements_missing_from_file", "(same mechanism as C10-6)"),
 "C10-9": ("C10", "wrong_attribution, file_lines_out_of_thread_order", "(a variant of C10-2)"),
 "C10-10": ("C10", "statements_missing_from_file", "missed at first; caught after a new fault kind: the log file is deleted under a FileSink whose after_open callback throws at the re-open"),
 "C14-8": ("C14", "statement_lost after_append_restart=1", ""),
 "C14-9": ("C14", "file_exceeds_size_limit, statement_lost", "missed at first; caught after the rotation harness also created RotatingFileSinks with FileEventNotifier callbacks"),
 "C14-10": ("C14", "statement_lost after_append_restart=0 naming=index", "(same mechanism as C14-6)"),
 "C15-8": ("C15", "statement_appended_to_the_file_open_before_a_rotation_point, statements_separated_without_a_rotation_point (hourly, zones with half-hour offsets)", ""),
 "C15-9": ("C15", "statement_lost after_append_restart=0 naming=index", "(same mechanism as C14-6)"),
 "C15-10": ("C15", "statement_appended_to_the_file_open_before_a_rotation_point, file_exceeds_size_limit", "missed at first; caught after the rotation harness also created RotatingFileSinks with FileEventNotifier callbacks"),
 "C16-8": ("C16", "delivered_to_a_sink_whose_threshold_or_filter_rejects_it", ""),
 "C16-9": ("C16", "wrong_attribution", "(same mechanism as C16-2)"),
 "C16-10": ("C16", "accepted_or_arguments_evaluated_below_logger_level", "(same mechanism as C16-5)"),
 "C17-8": ("C17", "sink_lookup_not_idempotent", "(same mechanism as C17-6)"),
 "C17-9": ("C17", "blocking_removal_never_returns, crash:Segmentation_fault", "(a variant of C17-5)"),
 "C17-10": ("C17", "blocking_removal_never_returns (also C08: control_request_never_returns)", ""),
 "C07-2": ("C07", "handler_notice_missing, statement_of_signalled_thread_missing, wrong_exit_status", "missed at first; caught after a second delivery of the same signal to another thread was added to C07 programs (and pause() interposed)"),
 "C11-1": ("C11", "steady_state_log_call_allocated typed_site=144/145/146", "missed at first; caught after call sites with more than twelve string values in one statement were added"),
 "C11-2": ("C11", "steady_state_log_call_allocated typed_site=130", ""),
 "C15-1": ("C15", "statements_separated_without_a_rotation_point", "missed at first; caught after the C15 oracle demanded that a size rotation be justified by the bytes in the file"),
 "C15-2": ("C15", "statements_separated_without_a_rotation_point (daily / hourly / minutely)", ""),
 # ---- wave 8 (ids -8 / -9; C01-C05, C07-C09, C11, C13, C18, C20): two per property, asked for non-default configurations,
 #      rarely used APIs or two cooperating sites, and to avoid the first mechanism that comes to mind
 "C01-8": ("C01", "reservation_granted_without_released_space, reservation_larger_than_capacity_granted, data_race_overwrite_of_bytes_still_being_read", "(same mechanism as C01-3: integral promotion of 8/16-bit position counters)"),
 "C01-9": ("C01", "record_visible_before_its_commit", "finish_write() publishes the writer position by itself once half the capacity is finished but uncommitted"),
 "C02-8": ("C08", "accepted_statement_larger_than_capacity, oversize_statement_not_rejected_with_error", "lives in ThreadContext (the configured maximum is rounded up to a power of two before it reaches the queue): invisible to the queue-level engine by construction; missed at first by the system-level checks because every maximum in the FrontendOptions menu was a power of two; caught by C08 after the unbounded dropping configuration got the maximum 3000 (largest reachable buffer 2048)"),
 "C02-9": ("C02", "oversize_record_not_rejected", ""),
 "C03-8": ("C03", "crash:Aborted (quill's formatted_msg assert), duplicate, lost, wrong_attribution (also C20)", "missed at first (every transit buffer capacity in the menu was a power of two); caught after BackendOptions::transit_event_buffer_initial_capacity also took the values 3, 5, 12, 100"),
 "C03-9": ("C03", "lost", "(same mechanism as C20-2: UnboundedSPSCQueue::empty() ignores the next buffer)"),
 "C04-8": ("C04", "message_differs_from_call_site_formatting", "needs a user check_printable_char stricter than the default inside the ASCII printable range (printable_mode 1 of the C04 / C11 runs)"),
 "C04-9": ("C04", "crash:Aborted (quill's size asserts), crash:Segmentation_fault, crash:Bus_error", "(same mechanism as C04-1)"),
 "C05-8": ("C05", "timestamp_order_inversion", "(UnboundedSPSCQueue::empty() ignores the next buffer: the batch goes on while older statements wait in the next buffer)"),
 "C05-9": ("C05", "timestamp_order_inversion", "(same mechanism as C05-4: TSC-clock statements bypass the grace-period hold-back)"),
 "C07-8": ("C07", "completed_statement_missing_after_exit, statement_missing_after_stop, crash", "(UnboundedSPSCQueue::empty() ignores the next buffer: the exit drain stops early)"),
 "C07-9": ("C07", "handler_notice_missing, statement_of_signalled_thread_missing", "missed at first by construction (C07 plans always ran with wait_for_queues_to_empty_before_exit enabled, which masks the change completely); caught after one signal run in three switched the option off - the signal clause of the property is not conditioned on it"),
 "C08-8": ("C08", "crash:Aborted (quill's size assert), accepted_statement_larger_than_capacity", "(same mechanism as C04-1)"),
 "C08-9": ("C08", "accepted_but_not_delivered", "(context clean-up after a flush ignores the transit buffer, cf. C03-1)"),
 "C09-8": ("C09", "blocked_log_call_never_resumes, fitting_statement_dropped_on_empty_queue", "(same mechanism as C09-3)"),
 "C09-9": ("C09", "reservation_refused_although_queue_empty_and_consumer_idle (queue level)", "a producer-side 'maximum reached' flag that shrink() never resets"),
 "C11-8": ("C11", "steady_state_log_call_allocated typed_site=144/145/146", "(same mechanism as C11-1)"),
 "C11-9": ("C11", "steady_state_log_call_allocated (several typed sites)", "a function-local thread_local size cache in log_statement: glibc allocates when it registers the destructor at a thread's first use of each statement signature (visible only because the whole malloc family is interposed)"),
 "C13-8": ("C13", "rendered_time_differs_from_strftime after_backward_step=1", "missed at first (no history moved within one second); caught after the clock histories got instants within the same second, earlier or later, with few significant fraction digits"),
 "C13-9": ("C13", "rendered_time_differs_from_strftime", "needs GMT mode in a process zone that observes DST (mktime-based timegm)"),
 "C18-8": ("C18", "backtrace_replay_differs_from_model, backtrace_flush_replayed_wrong_number_of_statements", "capacity parsed with strtoul from a recycled, not NUL-terminated transit buffer"),
 "C18-9": ("C18", "backtrace_replay_differs_from_model", "(same mechanism as C18-7)"),
 "C20-8": ("C20", "thread_contexts_not_reclaimed", "(same mechanism as C20-1)"),
 "C20-9": ("C20", "crash:Aborted, delivery:duplicate, delivery:lost, delivery:wrong_attribution (also C03)", "(same change as C03-8) missed at first; caught after transit buffer capacities that are not powers of two were added"),
}

def src_of(sid):
    prop, n = sid.split('-')[0], int(sid.split('-')[1])
    # waves 1-4: /tmp/wt/<prop>/_seeded/{1,2}; wave 5 (ids -3, -4): /tmp/w5/<prop>/_seeded/{1,2}
    # wave 6 (ids -5, -6, -7): /tmp/w6/<prop>/_seeded/{1,2,3}
    # wave 7 (ids -8, -9, -10; six properties only): /tmp/w7/<prop>/_seeded/{1,2,3}
    # wave 8 (ids -8, -9; the twelve properties that had no wave 7): /tmp/w8/<prop>/_seeded/{1,2}
    if n >= 8:
        return "/tmp/%s/%s/_seeded/%d" % ("w7" if prop in ("C06", "C10", "C14", "C15", "C16", "C17") else "w8", prop, n - 7)
    if n >= 5:
        return "/tmp/w6/%s/_seeded/%d" % (prop, n - 4)
    return "/tmp/wt/%s/_seeded/%d" % (prop, n) if n <= 2 else "/tmp/w5/%s/_seeded/%d" % (prop, n - 2)
done = []
for sid, (check, cls, note) in sorted(CAUGHT.items()):
    res = "/tmp/seeded_verify/%s.result" % sid
    src = src_of(sid)
    if not os.path.exists(res) or not os.path.isdir(src):
        continue
    r = open(res).read()
    ok = "APPLY: ok" in r and "DEMO-WITH-PATCH: exit=0" not in r and "BUILDFAIL" not in r and "DEMO-WITHOUT-PATCH: exit=0" in r and "BUILD: ok" in r
    if not ok:
        print("NOT CONFIRMED:", sid, r.replace("\n", "; "))
        continue
    dst = "/verif/seeded/%s" % sid
    os.makedirs(dst, exist_ok=True)
    for f in glob.glob(src + "/*"):
        if os.path.isfile(f) and os.path.getsize(f) < 400000:
            shutil.copy(f, dst)
    meta = {}
    try:
        meta = json.load(open(src + "/meta.json"))
    except Exception:
        pass
    meta_out = {
        "id": sid,
        "property": sid.split('-')[0],
        "summary": meta.get("summary", ""),
        "mechanism": meta.get("mechanism", ""),
        "needs_to_manifest": meta.get("needs_to_manifest", ""),
        "demo_cmd": meta.get("demo_cmd", ""),
        "demo_reliability": meta.get("demo_reliability", ""),
        "author_tests_run": meta.get("tests_run", ""),
        "confirmed_by_me": {
            "how": "tools/verify_seeded.sh in a scratch worktree of /repo HEAD (/tmp/sv_wt, removed afterwards): git apply, demo built with g++ -std=c++17 -O1 -g -pthread and run (must fail), full CMake test suite built and run with the patch (ctest -j12), patch reverted, demo run again (must pass)",
            "result": [l for l in r.strip().split("\n")],
        },
        "caught_by_check": check,
        "violation_class_in_quick_tier": cls,
        "how_checked": "tools/run_seeded.sh %s %s  (patch applied to a scratch copy of /repo's current tree, ./check %s quick tier with redirected build/evidence/replay dirs; exit 1 + VIOLATION line)" % (dst, check, check),
        "note": note,
    }
    json.dump(meta_out, open(dst + "/meta.json", "w"), indent=1)
    done.append(sid)
print("collected:", " ".join(done))
