#!/usr/bin/env python3
"""gen_manifest.py — writes /verif/MANIFEST.json from the table below (one place to keep it valid)."""
import json

SIMSYS_NOTE = ("trusted: the simulator (sim/: scheduler, virtual clock, interposition), the recording sinks and the "
               "reference oracle; atomics are sequentially consistent in SIM-SYS; preemption happens only at atomics, "
               "pthread/libc calls, clock reads and sink calls (complete for data-race-free code)")
TECH = "deterministic simulation: seeded schedule + fault search over the real library, reference-model oracle, ddmin-minimised replay"

CHECKS = {
 "C03": ("SIM-SYS", "seeded search over schedules (random walk and PCT), queue/backend configurations, thread start/exit histories and stall faults with the real frontend, queues and backend thread; per-thread exactly-once / in-order / intact oracle on recording sinks; sampling, not proof", SIMSYS_NOTE, TECH),
 "C07": ("SIM-SYS", "seeded search over programs x terminal events x schedules: Backend::stop()/start() cycles judged in-process at the moment stop() returns (file read back through a fresh descriptor), exit(n) and each of SIGSEGV/SIGABRT/SIGFPE/SIGILL/SIGINT/SIGTERM (raised and really faulted) placed after 0-8 statements of a victim thread with the backend busy, stalled or idle; FileSink and RotatingFileSink destinations; a logger removed before the stop / exit / signal (backend held in its idle round); signal runs also with wait_for_queues_to_empty_before_exit off; the child really exits or dies and the parent judges wait status and file contents; sampling, not proof", SIMSYS_NOTE + "; alarm() is recorded, never armed; plain flavour only; after exit() began other user threads finish their current call and park", TECH),
 "C08": ("SIM-SYS", "seeded search over schedules, dropping queue configurations, bursts sized against the capacity (incl. never-fitting sizes, and an unbounded maximum that is not a power of two), backend stalls, control requests while the queue is full and threads that exit after dropping; oracle relates log-call return values x recording sink x parsed notifier drop counts per thread; control-request liveness judged in the fair phase and control-request effect observed (backtrace init / fill / flush on a private logger must replay exactly min(capacity, stored); blocking logger removal after a burst must return); sampling, not proof", SIMSYS_NOTE, TECH),
 "C09": ("SIM-Q+SIM-SYS", "two levels: (SIM-Q) the real queue classes driven to a quiescent state (consumer drained and idle exactly as the backend does) followed by a request <= capacity, where 'still refused' is an exact verdict, under the weak-memory scheduler; (SIM-SYS) end-to-end histories followed by a statement of any encoded size up to the capacity, liveness judged in the fair phase; sampling, not proof", SIMSYS_NOTE, TECH),
 "C10": ("SIM-SYS", "seeded search over fault plans attached to statements (sink write/flush throws, fwrite ENOSPC on a real FileSink, run-time format mismatch, user formatter throwing std / non-std types, LOG_BACKTRACE without init) x schedules; neighbours-intact exactly-once oracle per sink, file content oracle, notifier count, backend liveness in the fair phase; real sinks included: FileSink (with and without FileEventNotifier callbacks) and RotatingFileSink under fwrite failures, JsonFileSink whose before_write callback rejects chosen statements (every line must be one JSON object, nothing of a failed statement may be glued to the next); statements with placeholders and no arguments; sampling, not proof", SIMSYS_NOTE, TECH),
 "C11": ("SIM-SYS", "seeded search over the typed call-site pool restricted to the property's listed types x schedules (whether a record fits depends on backend draining): interposed malloc-family / mmap calls counted per simulated thread between entry to and return from each real LOG_INFO call (0 required unless first call of the thread or the queue capacity changed); user formatters record the simulated thread they run on (deferred: backend, direct: caller); queue growth is excused only when it can have been necessary (a statement of known size filling a drained queue to 94-100 % must not grow it); sampling, not proof", SIMSYS_NOTE + "; plain flavour only (ASan owns malloc)", TECH),
 "C16": ("SIM-SYS", "seeded search over level / threshold / filter configurations x schedules: statements at every static level and dynamic levels through the real LOG_* macros (argument side-effect counter) and log_statement, logger levels changing concurrently, sink thresholds / filters changing at quiescent barriers, override patterns, transit buffers of capacity 1-4 so slots are reused by statements of different kinds; per-sink acceptance model + line/level/named-argument attribution; sampling, not proof", SIMSYS_NOTE, TECH),
 "C17": ("SIM-SYS", "seeded search over create / lookup / remove (asynchronous and blocking) / re-create histories with sinks shared in random patterns, removal while statements are still queued, backend stalls around the removal, scoped CsvWriter cycles over a small pool of file names, real FileSinks whose callbacks report the closing of the file (judged by the file as it was when it was closed), x schedules; exactly-once delivery, registry model (lookup idempotent, blocking removal complete on return, new sinks after re-creation), sink destruction iff unreferenced, blocking-removal liveness in the fair phase; ASan flavour in the thorough tier for premature frees; sampling, not proof", SIMSYS_NOTE + "; API contract respected by construction (barriers before removal, no same-name re-creation after asynchronous removal)", TECH),
 "C18": ("SIM-SYS", "seeded search over store/flush/re-init histories (capacity 1-8, 0..3*capacity+3 stores per cycle, explicit and flush-level triggered flushes, several cycles incl. after a wrapped flush; 1 run in 4: 2-3 threads storing into one ring concurrently, flush after they are joined) x schedules; sink sequence compared with an executable reference ring model (multi-writer: count, per-thread most-recent suffix, attribution); a sink throwing during a replay as fault variant; sampling, not proof", SIMSYS_NOTE + "; exact model with one writer thread per backtrace logger, re-initialisation only with an empty ring", TECH),
 "C20": ("SIM-SYS", "seeded search over thread start/exit histories (waves of 1-512 real short-lived threads, sizes biased to k*256+-1, backend stalled or busy during the wave), shrink requests after growth; context count through the public ThreadContextManager API at a quiescent point in the fair phase + exactly-once delivery oracle; sampling, not proof", SIMSYS_NOTE, TECH),
 "C04": ("SIM-SYS", "seeded search over a compiled pool of 58 typed call sites (incl. the LOGV_ / LOGJ_ / _LIMIT / _LIMIT_EVERY_N / _TAGS / runtime-metadata macro families; value space sampled by a seeded generator) x schedules that decide whether the backend decodes before or after the caller overwrote and destroyed its arguments, at which ring offset the record lies and whether the queue grows at this record; expected text = fmtquill::format at the call site + the sanitisation configured for the run (library default, a stricter user check_printable_char, or none); quill's own size-accounting asserts enabled, every following statement of the thread must still decode; sampling, not proof", SIMSYS_NOTE + "; the value space part is ordinary seeded generation — the simulator contributes the timing of decode vs mutation and record placement", TECH),
 "C05": ("SIM-SYS", "seeded search over schedules with a virtual clock (System and TSC), stalls between a thread's clock read and its commit, backend stalls at the clock read of a pass next to first-time threads, small soft/hard limits; running-maximum timestamp oracle over all write_log calls with a conservative lateness excuse; sampling, not proof", SIMSYS_NOTE + "; TSC runs tolerate inversions below RdtscClock's 3.4 us resync window", TECH),
 "C06": ("SIM-SYS", "seeded search over schedules, all four queue types, first-time threads next to backend stalls, recording and real file sinks (FileSink, and RotatingFileSink whose destination is the set of its files); the oracle is evaluated in the very scheduler step in which flush_log() returns (sink records, flush marks, file read back through a fresh descriptor); liveness judged only in the fair phase; sampling, not proof", SIMSYS_NOTE + "; cross-thread clause with a TSC logger involved demanded only beyond RdtscClock's 3.4 us resync window", TECH),
}


COMP_NOTE = ("trusted: libc time functions (shared by oracle and code under test), tmpfs, the reference models; single-threaded by design — the "
             "simulated elements are the clock history and the directory state across restarts")
CHECKS.update({
 "C13": ("SIM-COMP", "seeded search over (pattern, zone, mode) x simulated clock histories with ticks, repeats, forward jumps over every cache boundary and backward steps, 2001-2100; every call compared with gmtime_r/localtime_r + strftime + spliced fraction; invalid patterns must be rejected; sampling, not proof (thinnest fit of the technique: the only simulator element is the clock with its jump faults)", COMP_NOTE, "deterministic simulation of a clock process with jump faults driving the real formatter, libc oracle per call, ddmin-minimised replay"),
 "C14": ("SIM-COMP", "seeded search over directory histories of the real RotatingFileSink: write sizes around the limit, restarts (destroy + construct over the same directory, append and clean modes), foreign files, x limit / backup count / overwrite / naming scheme / zone; after every op the directory is listed and read back against a file-set reference model (whole statements, size bound, order across files, backup count, nothing clobbered, foreign files untouched); sampling, not proof", COMP_NOTE, "deterministic simulation of disk state across restarts with a reference file-set model, ddmin-minimised replay"),
 "C15": ("SIM-COMP", "as C14 with daily / hourly / minutely time rotation: start instants anywhere in the period, dense steps, instants exactly on / 1 ns around wall-clock boundaries, gaps of many periods, zones, naming schemes, optional size limit; oracle: which file each statement is in relative to the scheduled points (both documented readings accepted for interval k), file names encode the opening instant; sampling, not proof", COMP_NOTE + "; daily schedules judged on days without a DST change", "deterministic simulation of clock histories and disk state with a schedule reference model, ddmin-minimised replay"),
})

Q_NOTE = ("trusted: the fibre scheduler, the operational memory model (under-approximates C++11: seq_cst stronger than the standard, stores totally "
          "ordered by execution, store history bounded to 8 — it can miss an allowed behaviour, never invent a forbidden one), the byte race detector and the FIFO model; "
          "only payload bytes are race-checked, the queue's own non-atomic members are single-sided by the SPSC contract")
Q_TECH = "deterministic simulation: seeded interleaving + weak-memory (stale load) search over the real queue class, happens-before race detector, FIFO reference model, ddmin-minimised replay"
CHECKS.update({
 "C01": ("SIM-Q", "seeded search over interleavings at every atomic operation x legal stale atomic-load values (operational C++11 release/acquire/relaxed model) x integer types (incl. uint8_t/uint16_t so position counters wrap) x capacities x record-size sequences x reader publish thresholds, on the unmodified BoundedSPSCQueueImpl<T>; oracle: FIFO model (lost / duplicated / reordered / torn / visible before commit), space and offset checks on every grant, happens-before race detector on every payload byte; sampling, not proof", Q_NOTE, Q_TECH),
 "C02": ("SIM-Q", "as C01 on the unmodified UnboundedSPSCQueue with real mmap'd nodes: growth by one or several doublings, growth refused at the maximum, records larger than the maximum (must throw), shrink requests, repeated grow/shrink cycles; additionally: reported switch capacities vs the producer's node sequence, capacity never above the maximum, payload only inside live mappings, atomics of deleted nodes never touched again, every mapping freed; sampling, not proof", Q_NOTE, Q_TECH),
})

ENGINES = [
 {"name": "SIM-SYS", "path": "simsys/", "serves_properties": sorted(k for k, v in CHECKS.items() if v[0] in ("SIM-SYS", "SIM-Q+SIM-SYS")),
  "kind_free_text": "whole real quill library in one forked process per run under a seeded one-baton scheduler over real pthreads, virtual clock, interposed libc/pthread, recording sinks, fault plan; seeded search + ddmin minimisation + replay gate"},
 {"name": "SIM-Q", "path": "simq/", "serves_properties": sorted(k for k, v in CHECKS.items() if v[0] in ("SIM-Q", "SIM-Q+SIM-SYS")),
  "kind_free_text": "the two real SPSC queue classes between a producer and a consumer fibre under a seeded scheduler with an operational C++11 weak-memory model for atomics and a happens-before race detector on payload bytes"},
 {"name": "SIM-COMP", "path": "simcomp/", "serves_properties": sorted(k for k, v in CHECKS.items() if v[0] == "SIM-COMP"),
  "kind_free_text": "single components (TimestampFormatter, RotatingFileSink) driven by a simulated clock with jump faults and a scratch directory with restart / foreign-file events, against reference models"},
]
ENGINES = [e for e in ENGINES if e["serves_properties"]]

NA = [
 {"property_id": "C12", "reason": "pure function of (pattern, attribute values, message): no schedule, clock, fault, I/O or shared state for a simulator to control (DESIGN.md section 5)"},
 {"property_id": "C19", "reason": "pure function of (template, arguments) plus a content-keyed memo table; first-seen order cannot change a result (DESIGN.md section 5)"},
]
ALL = ["C%02d" % i for i in range(1, 21)]
for pid in ALL:
    if pid not in CHECKS and pid not in [n["property_id"] for n in NA]:
        NA.append({"property_id": pid, "reason": "check not built yet in this round (planned, see DESIGN.md section 4); not claimed until its check exists"})

m = {
 "version": 1,
 "setup_cmd": "make -j16 all",
 "hooks": {
  "guard": "QUILL_VERIF",
  "enable": "no source hook is needed: all seams are outside /repo (textual prelude sim/prelude.h + link-time interposition sim/sim.cpp); the guard name is reserved and unused",
  "baseline_off_cmd": "ctest --test-dir /repo/_build -j8 --timeout 900",
  "source_commits": [],
  "add_only": True
 },
 "engines": ENGINES,
 "checks": [
  {"property_id": pid,
   "quick_cmd": "./check %s --tier quick" % pid,
   "thorough_cmd": "./check %s --tier thorough" % pid,
   "evidence_file": "/verif/evidence/%s.json" % pid,
   "replay_cmd_template": "./check %s --replay {path}" % pid,
   "engine": v[0],
   "level_claimed": {"category": "exploration", "text": v[1], "design_ref": "DESIGN.md section 4, %s" % pid},
   "level_note": v[2],
   "technique": v[3]} for pid, v in sorted(CHECKS.items())],
 "not_applicable": sorted(NA, key=lambda n: n["property_id"]),
 "notes": "fix commits in /repo are listed in known_findings.txt (fixed: lines); DESIGN.md 'Corrections' records every change to the machinery after a false alarm"
}
json.dump(m, open('/verif/MANIFEST.json', 'w'), indent=1)
print("MANIFEST.json written:", len(m["checks"]), "checks,", len(m["not_applicable"]), "not applicable")
