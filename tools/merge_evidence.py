#!/usr/bin/env python3
"""merge_evidence.py <main.json> <extra.json> <key>
Adds the coverage of a second engine/flavour run of the same property to the main evidence file:
evaluations and distinct_nontrivial are summed (the two runs use different seeds / engines, so
their cases are distinct), violations are summed, the extra file's coverage is kept under <key>."""
import json, sys
main_p, extra_p, key = sys.argv[1:4]
try:
    main = json.load(open(main_p))
except Exception:
    main = None
try:
    extra = json.load(open(extra_p))
except Exception:
    extra = None
if main is None and extra is None:
    sys.exit(0)
if main is None:
    json.dump(extra, open(main_p, "w"), indent=1)
    sys.exit(0)
if extra is None:
    sys.exit(0)
mc, ec = main["coverage"], extra["coverage"]
mc[key] = ec
mc["evaluations"] = mc.get("evaluations", 0) + ec.get("evaluations", 0)
mc["distinct_nontrivial"] = mc.get("distinct_nontrivial", 0) + ec.get("distinct_nontrivial", 0)
mc["samples"] = list(mc.get("samples", [])) + list(ec.get("samples", []))[:2]
main["violations"] = main.get("violations", 0) + extra.get("violations", 0)
main["wall_s"] = main.get("wall_s", 0) + extra.get("wall_s", 0)
main["assumptions"] = list(dict.fromkeys(list(main.get("assumptions", [])) + list(extra.get("assumptions", []))))
json.dump(main, open(main_p, "w"), indent=1)
