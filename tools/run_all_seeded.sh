#!/bin/bash
# run_all_seeded.sh — apply every change kept under /verif/seeded/<id>/ to a scratch copy of /repo's current tree and run
# the quick tier of the check recorded in its meta.json ("caught_by_check"); prints one line per change:
#   <id> <check> CAUGHT|MISSED  classes...
cd /verif
for d in seeded/*/; do
  id=$(basename $d)
  [ -f $d/meta.json ] || continue
  chk=$(python3 -c "import json;print(json.load(open('$d/meta.json'))['caught_by_check'])")
  out=$(tools/run_seeded.sh /verif/$d $chk 2>&1)
  if echo "$out" | grep -q "^VIOLATION"; then
    cls=$(echo "$out" | grep -oE "class=[a-zA-Z_:]+" | sort -u | tr '\n' ' ')
    rate=$(echo "$out" | grep -oE "runs=[0-9]+|violating=[0-9]+" | tr '\n' ' ')
    echo "$id $chk CAUGHT [$rate] $cls"
  else
    echo "$id $chk MISSED $(echo "$out" | grep -E "quick|exit=|HARNESS|patch failed" | tr '\n' ' ' | cut -c1-200)"
  fi
done
