#!/bin/bash
# run_seeded.sh <seeded-dir> [profile...]  — apply <seeded-dir>/patch.diff to a scratch copy of /repo's current tree,
# build the SIM-SYS engine from it and run the quick tier of the given profiles (default: the property in meta.json).
set -u
D="$1"; shift
PROFS="$*"
if [ -z "$PROFS" ]; then PROFS=$(python3 -c "import json,sys;print(json.load(open('$D/meta.json'))['property'])"); fi
cd /verif
tools/with_patch.sh "$D/patch.diff" bash -c '
  make -s -j16 REPO=$REPO B=$B $B/simsys_plain > /dev/null 2>$B.err || { echo BUILD-FAILED; tail -5 $B.err; exit 3; }
  for P in '"$PROFS"'; do
    $B/simsys_plain --profile $P --workers 16 --replay-dir /tmp/seeded_replays ${RUNS:+--runs $RUNS} 2>&1 | grep -E "VIOLATION|KNOWN|class=|quick:|HARNESS" | cut -c1-400
  done'
