#!/bin/bash
# run_seeded.sh <seeded-dir> [property ids...] — apply <seeded-dir>/patch.diff to a scratch copy of /repo's current
# tree and run the quick tier of the given checks (default: the property in meta.json) against it, through ./check
# with redirected build / evidence / replay directories. Nothing in /repo or /verif/evidence is touched.
set -u
D="$1"; shift
IDS="$*"
if [ -z "$IDS" ]; then IDS=$(python3 -c "import json,sys;print(json.load(open('$D/meta.json'))['property'])"); fi
cd /verif
tools/with_patch.sh "$D/patch.diff" bash -c '
  for P in '"$IDS"'; do
    VERIF_REPO=$REPO VERIF_BUILD=$B VERIF_EVIDENCE_DIR=$B/evidence VERIF_REPLAY_DIR=/tmp/seeded_replays ./check $P 2>&1 | grep -E "VIOLATION|KNOWN|class=|quick|HARNESS" | cut -c1-330
    echo "exit=${PIPESTATUS[0]}"
  done'
