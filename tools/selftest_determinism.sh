#!/bin/bash
# selftest_determinism.sh [runs] — every profile / property: the same seeds executed twice, at 16 and at 5 workers,
# must give identical (seed, event hash, verdict, class) sets. Also compares the plain and the ASan flavour of SIM-SYS
# on a smaller sample. Prints one line per engine/profile and exits 1 on any difference.
cd /verif
N=${1:-2000}
rc=0
make -s -j16 build/simsys_plain build/simq build/simcomp > /dev/null 2>&1 || { echo BUILD-FAILED; exit 2; }
for P in C03 C04 C05 C06 C07 C08 C09 C10 C11 C16 C17 C18 C20; do
  n=$N; [ $P = C20 ] && n=$((N/10))
  build/simsys_plain --profile $P --runs $n --workers 16 --quiet --stats-only --no-min --replay-dir /tmp/dt_replays --dump-hashes /tmp/dt_a.txt > /dev/null 2>&1
  build/simsys_plain --profile $P --runs $n --workers 5 --quiet --stats-only --no-min --replay-dir /tmp/dt_replays --dump-hashes /tmp/dt_b.txt > /dev/null 2>&1
  a=$(sort /tmp/dt_a.txt | md5sum | cut -c1-12); b=$(sort /tmp/dt_b.txt | md5sum | cut -c1-12)
  d=$(sort /tmp/dt_a.txt | awk '{print $2}' | sort -u | wc -l)
  if [ "$a" = "$b" ]; then echo "simsys $P: $n seeds x 2 executions (16 / 5 workers): identical; $d distinct hashes"; else echo "simsys $P: DIFFERENT"; rc=1; diff <(sort /tmp/dt_a.txt) <(sort /tmp/dt_b.txt) | head -4; fi
done
for P in C01 C02 C09; do
  build/simq --property $P --runs $N --workers 16 --no-min --replay-dir /tmp/dt_replays --dump-hashes /tmp/dt_a.txt > /dev/null 2>&1
  build/simq --property $P --runs $N --workers 5 --no-min --replay-dir /tmp/dt_replays --dump-hashes /tmp/dt_b.txt > /dev/null 2>&1
  a=$(sort /tmp/dt_a.txt | md5sum | cut -c1-12); b=$(sort /tmp/dt_b.txt | md5sum | cut -c1-12)
  if [ "$a" = "$b" ]; then echo "simq $P: $N seeds x 2 executions: identical"; else echo "simq $P: DIFFERENT"; rc=1; fi
done
for P in C13 C14 C15; do
  build/simcomp --property $P --runs $N --workers 16 --no-min --replay-dir /tmp/dt_replays --dump-hashes /tmp/dt_a.txt > /dev/null 2>&1
  build/simcomp --property $P --runs $N --workers 5 --no-min --replay-dir /tmp/dt_replays --dump-hashes /tmp/dt_b.txt > /dev/null 2>&1
  a=$(sort /tmp/dt_a.txt | md5sum | cut -c1-12); b=$(sort /tmp/dt_b.txt | md5sum | cut -c1-12)
  if [ "$a" = "$b" ]; then echo "simcomp $P: $N seeds x 2 executions: identical"; else echo "simcomp $P: DIFFERENT"; rc=1; fi
done
if [ -x build/simsys_asan ]; then
  for P in C03 C06 C10 C17; do
    build/simsys_plain --profile $P --runs 400 --workers 8 --quiet --stats-only --no-min --replay-dir /tmp/dt_replays --dump-hashes /tmp/dt_a.txt > /dev/null 2>&1
    build/simsys_asan --profile $P --runs 400 --workers 8 --quiet --stats-only --no-min --replay-dir /tmp/dt_replays --dump-hashes /tmp/dt_b.txt > /dev/null 2>&1
    a=$(sort /tmp/dt_a.txt | awk '{print $1,$2,$3,$4}' | md5sum | cut -c1-12); b=$(sort /tmp/dt_b.txt | awk '{print $1,$2,$3,$4}' | md5sum | cut -c1-12)
    if [ "$a" = "$b" ]; then echo "simsys $P plain vs asan: 400 seeds: identical event hashes"; else echo "simsys $P plain vs asan: DIFFERENT"; rc=1; fi
  done
fi
rm -rf /tmp/dt_a.txt /tmp/dt_b.txt /tmp/dt_replays
exit $rc
