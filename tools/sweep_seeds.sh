#!/bin/bash
# sweep_seeds.sh <from> <to> — run every check's quick tier with VERIF_SEED in [from,to] (evidence / replays redirected);
# prints every run that does not exit 0 or prints a VIOLATION line. A clean sweep = no false alarm at other seeds.
cd "$(dirname "$0")/.."
for seed in $(seq $1 $2); do
  for id in ${SWEEP_IDS:-C01 C02 C03 C04 C05 C06 C07 C08 C09 C10 C11 C13 C14 C15 C16 C17 C18 C20}; do
    out=$(VERIF_SEED=$seed VERIF_EVIDENCE_DIR=${SWEEP_OUT:-/tmp}/sweep_ev VERIF_REPLAY_DIR=${SWEEP_OUT:-/tmp}/sweep_replays ./check $id 2>&1); rc=$?
    if [ $rc -ne 0 ] || echo "$out" | grep -q "^VIOLATION\|HARNESS"; then echo "seed=$seed $id rc=$rc"; echo "$out" | grep -E "VIOLATION|HARNESS|class=" | cut -c1-300; fi
    inc=$(echo "$out" | grep -oE "inconclusive=[0-9]+" | head -1)
    [ "$inc" != "inconclusive=0" ] && [ -n "$inc" ] && echo "seed=$seed $id $inc"
  done
  echo "seed $seed done"
done
