#!/usr/bin/env python3
"""validate.py — validate MANIFEST.json and every evidence file against the given schemas (uses the tooling venv's jsonschema)"""
import json, sys, glob, jsonschema
ok = True
try:
    jsonschema.validate(json.load(open('/verif/MANIFEST.json')), json.load(open('/root/.vp/MANIFEST.schema.json')))
    print('MANIFEST.json ok')
except Exception as e:
    print('MANIFEST.json INVALID', e); ok = False
sch = json.load(open('/root/.vp/EVIDENCE.schema.json'))
for f in sorted(glob.glob('/verif/evidence/*.json')):
    try:
        jsonschema.validate(json.load(open(f)), sch); print(f, 'ok')
    except Exception as e:
        print(f, 'INVALID', str(e)[:300]); ok = False
sys.exit(0 if ok else 1)
