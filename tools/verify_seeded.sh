#!/bin/bash
# verify_seeded.sh <src-dir-with-patch.diff+demo> <name>
# Confirms a seeded change in a scratch worktree of /repo's current HEAD (outside /repo and /verif):
#   1. the patch applies, 2. the demo FAILS with it, 3. the existing test suite builds and passes with it,
#   4. the demo PASSES without it.  Writes /tmp/seeded_verify/<name>.result ; removes nothing but its own patch state.
set -u
SRC="$1"; NAME="$2"
WT=${SV_WT:-/tmp/sv_wt}
OUT=/tmp/seeded_verify; mkdir -p $OUT
R=$OUT/$NAME.result; : > $R
if [ ! -d $WT ]; then git -C /repo worktree add --detach $WT HEAD -q || exit 2; fi
git -C $WT checkout -q --detach "$(git -C /repo rev-parse HEAD)" ; git -C $WT reset -q --hard; git -C $WT clean -fdq -e _b
if ! git -C $WT apply --check "$SRC/patch.diff" 2>>$R; then
  if ! git -C $WT apply --3way "$SRC/patch.diff" 2>>$R; then echo "APPLY: FAILED" >> $R; exit 1; fi
else git -C $WT apply "$SRC/patch.diff"; fi
echo "APPLY: ok" >> $R
demo_build_run() { # label
  local d=$OUT/$NAME.demo; rm -rf $d; mkdir -p $d; cp -r "$SRC"/* $d/ 2>/dev/null
  ( cd $d; if [ -f demo.sh ]; then sed -i -E "s#/tmp/(wt|w5|w6|w7|w8)/[A-Za-z0-9]+#$WT#g" demo.sh; timeout 600 bash demo.sh > run.log 2>&1; echo $?; 
    else g++ -std=c++17 -O1 -g -pthread -I $WT/include demo.cpp -o demo > build.log 2>&1 || { echo BUILDFAIL; exit; }; timeout 600 ./demo > run.log 2>&1; echo $?; fi ) | tail -1
}
rc=$(demo_build_run); echo "DEMO-WITH-PATCH: exit=$rc (expected non-zero)" >> $R
if [ ! -d $WT/_b ]; then cmake -S $WT -B $WT/_b -G Ninja -DQUILL_BUILD_TESTS=ON -DCMAKE_BUILD_TYPE=RelWithDebInfo -DCMAKE_CXX_FLAGS=-Wno-error > $OUT/$NAME.cmake.log 2>&1; fi
if nice -n 10 cmake --build $WT/_b -j12 > $OUT/$NAME.build.log 2>&1; then echo "BUILD: ok" >> $R; else echo "BUILD: FAILED" >> $R; fi
nice -n 10 ctest --test-dir $WT/_b -j12 --timeout 900 > $OUT/$NAME.ctest.log 2>&1
grep -E "tests passed|tests failed" $OUT/$NAME.ctest.log >> $R
grep -E "^\s+[0-9]+ - .*\((Failed|Timeout)" $OUT/$NAME.ctest.log | head -5 >> $R
git -C $WT reset -q --hard
rc=$(demo_build_run); echo "DEMO-WITHOUT-PATCH: exit=$rc (expected 0)" >> $R
cat $R
