#!/bin/bash
# with_patch.sh <patch.diff> <command...>
# Sensitivity helper: copies /repo to a scratch tree, applies the patch there, builds the engines
# from that tree into a scratch build directory and runs <command> with REPO and B exported
# (so `$B/simsys_plain ...` is the patched binary). Nothing in /repo is touched; the scratch tree is
# removed afterwards.
set -u
patch="$1"; shift
S=$(mktemp -d /tmp/qmut.XXXXXX)
trap 'rm -rf "$S"' EXIT
mkdir -p "$S/repo"
cp -r /repo/include "$S/repo/include"
( cd "$S/repo" && patch -p1 -s < "$patch" ) || { echo "patch failed"; exit 2; }
export REPO="$S/repo" B="$S/build"
"$@"
